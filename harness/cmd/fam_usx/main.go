// fam_usx: correspondence harness for the zero-copy conversions (C20).
// Line formats: see lean/Drv/Usx.lean. Addresses are never printed, only the boolean relation
// "same data pointer".
package main

import (
	"fmt"
	"runtime"
	"runtime/debug"
	"strconv"
	"syscall"
	"unsafe"

	"github.com/cloudwego/gopkg/unsafex"
	"verifharness/lib"
)

var em *lib.Emitter

// data pointer = first word of a string or slice header
func strData(s *string) unsafe.Pointer   { return *(*unsafe.Pointer)(unsafe.Pointer(s)) }
func sliceData(b *[]byte) unsafe.Pointer { return *(*unsafe.Pointer)(unsafe.Pointer(b)) }

var (
	sinkStr   string // forces the big string onto the heap
	sinkBytes []byte
)

// strOver: the string occupying the bytes of *b (data pointer and length of the slice header; made by the harness,
// not by the code under test)
func strOver(b *[]byte) string { return *(*string)(unsafe.Pointer(b)) }

func same(ok bool) string {
	if ok {
		return "same"
	}
	return "diff"
}

func runB2S(obj string, off, ln, cp int) string {
	var o []byte
	switch obj {
	case "nil":
		o = nil
	case "-":
		o = make([]byte, 0)
	default:
		o = lib.UnHex(obj)
	}
	if off < 0 || ln < 0 || ln > cp || off+cp > len(o) || (obj == "nil" && (off|ln|cp) != 0) {
		return "bad-op"
	}
	return lib.Guard(func() string {
		var b []byte
		if obj != "nil" {
			b = o[off : off+ln : off+cp]
		}
		sinkBytes = o
		s := unsafex.BinaryToString(b)
		content := lib.Hex([]byte(s)) // a copy, taken now
		ptr := "-"
		if ln > 0 {
			ptr = same(strData(&s) == sliceData(&b))
		}
		for i := range b { // mutate through the slice: a shared string must follow
			b[i] ^= 0xff
		}
		after := lib.Hex([]byte(s))
		return fmt.Sprintf("content=%s len=%d ptr=%s after=%s", content, len(s), ptr, after)
	})
}

func runS2B(obj string, off, ln int, extra []byte) string {
	var bigBytes []byte
	if obj != "lit" && obj != "-" {
		bigBytes = lib.UnHex(obj)
	}
	if off < 0 || ln < 0 || off+ln > len(bigBytes) {
		return "bad-op"
	}
	return lib.Guard(func() string {
		var big string
		if obj == "lit" {
			big = ""
		} else {
			big = string(bigBytes) // a fresh, writable heap copy
		}
		sinkStr = big
		s := big[off : off+ln]
		b := unsafex.StringToBinary(s)
		content := lib.Hex(append([]byte(nil), b...))
		ptr := "-"
		if ln > 0 {
			ptr = same(sliceData(&b) == strData(&s))
		}
		lb, cb := len(b), cap(b)
		r := append(b, extra...)
		moved := "-"
		if ln > 0 {
			moved = strconv.FormatBool(sliceData(&r) != sliceData(&b))
		}
		orig := "same"
		if sinkStr != string(bigBytes) || len(sinkStr) != len(bigBytes) {
			orig = "changed"
		}
		return fmt.Sprintf("content=%s len=%d cap=%d ptr=%s app=%s moved=%s orig=%s",
			content, lb, cb, ptr, lib.Hex(r), moved, orig)
	})
}

// ---------------------------------------------------------------- usx big: lengths around 2^30 / 2^31

// zeroPages returns n bytes of memory that is only reserved: untouched pages of an anonymous mapping cost no
// resident memory (fallback: a fresh make, whose pages are just as untouched). release gives it back at once.
func zeroPages(n int) (mem []byte, release func()) {
	m, err := syscall.Mmap(-1, 0, n, syscall.PROT_READ|syscall.PROT_WRITE,
		syscall.MAP_ANON|syscall.MAP_PRIVATE|syscall.MAP_NORESERVE)
	if err == nil {
		return m, func() { syscall.Munmap(m) }
	}
	mem = make([]byte, n)
	return mem, func() { debug.FreeOSMemory() }
}

const (
	bigMaxLen  = 1 << 33
	bigMaxSide = 1 << 16
)

// runBig: w = obj[off : off+ln : off+ln+spare] inside an object of off+ln+spare zero bytes, `mark` written at both ends
// of the window (nothing else is ever touched). b2s: s = BinaryToString(w); s2b: b = StringToBinary(the string
// occupying w's bytes, a substring of the string occupying the whole object). Reported: len (cap), pointer
// equality, the marker bytes read through the result - and again after they were flipped through w.
func runBig(conv string, off, ln, spare int, mark []byte) string {
	k := len(mark)
	if (conv != "b2s" && conv != "s2b") || k < 1 || k > 8 || ln < 2*k || ln > bigMaxLen ||
		off < 0 || off > bigMaxSide || spare < 0 || spare > bigMaxSide {
		return "bad-op"
	}
	mem, release := zeroPages(off + ln + spare)
	defer release()
	return lib.Guard(func() string {
		w := mem[off : off+ln : off+ln+spare]
		copy(w, mark)
		copy(w[ln-k:], mark)
		flip := func() {
			for i := 0; i < k; i++ {
				w[i] ^= 0xff
				w[ln-k+i] ^= 0xff
			}
		}
		if conv == "b2s" {
			s := unsafex.BinaryToString(w)
			ends := func() (string, string) {
				if len(s) < k {
					return "-", "-"
				}
				return lib.Hex([]byte(s[:k])), lib.Hex([]byte(s[len(s)-k:]))
			}
			ptr := same(strData(&s) == sliceData(&w))
			h, t := ends()
			flip()
			ah, at := ends()
			return fmt.Sprintf("len=%d ptr=%s head=%s tail=%s ahead=%s atail=%s", len(s), ptr, h, t, ah, at)
		}
		s := strOver(&w)
		b := unsafex.StringToBinary(s)
		ends := func() (string, string) {
			if len(b) < k {
				return "-", "-"
			}
			return lib.Hex(b[:k]), lib.Hex(b[len(b)-k:])
		}
		ptr := same(sliceData(&b) == strData(&s))
		h, t := ends()
		flip()
		ah, at := ends()
		return fmt.Sprintf("len=%d cap=%d ptr=%s head=%s tail=%s ahead=%s atail=%s", len(b), cap(b), ptr, h, t, ah, at)
	})
}

// ---------------------------------------------------------------- usx stk: the source lives in a local array

const stkN = 64

var (
	keptStr   string // the converted value outlives the function that made it
	keptBytes []byte
)

//go:noinline
func deepFrames(n int) int {
	var pad [1024]byte
	pad[n%len(pad)] = byte(n)
	if n == 0 {
		return int(pad[0])
	}
	return deepFrames(n-1) + int(pad[n%len(pad)])
}

// stkB2S / stkS2B run on a fresh goroutine (small stack). The source is a window of a LOCAL array; the converted
// value is kept in a package-level variable; then `depth` frames of 1 KiB make the stack grow (= move). Only
// afterwards the value is read (content), the source is flipped and the value is read again (after).
// With the code as it is the array escapes to the heap and nothing depends on the stack.
//
//go:noinline
func stkB2S(obj []byte, off, ln, depth int) string {
	var buf [stkN]byte
	copy(buf[:], obj)
	b := buf[off : off+ln]
	keptStr = unsafex.BinaryToString(b)
	l0 := len(keptStr)
	deepFrames(depth)
	content := lib.Hex([]byte(keptStr))
	ptr := "-"
	if ln > 0 {
		ptr = same(uintptr(strData(&keptStr)) == uintptr(unsafe.Pointer(&buf[off])))
	}
	for i := range b {
		b[i] ^= 0xff
	}
	after := lib.Hex([]byte(keptStr))
	keptStr = ""
	return fmt.Sprintf("content=%s len=%d ptr=%s after=%s", content, l0, ptr, after)
}

//go:noinline
func stkS2B(obj []byte, off, ln, depth int) string {
	var buf [stkN]byte
	copy(buf[:], obj)
	b := buf[off : off+ln]
	s := strOver(&b) // the string occupying the window (substring of the one occupying buf)
	keptBytes = unsafex.StringToBinary(s)
	l0, c0 := len(keptBytes), cap(keptBytes)
	deepFrames(depth)
	content := lib.Hex(keptBytes)
	ptr := "-"
	if ln > 0 {
		ptr = same(uintptr(sliceData(&keptBytes)) == uintptr(unsafe.Pointer(&buf[off])))
	}
	for i := range b {
		b[i] ^= 0xff
	}
	after := lib.Hex(keptBytes)
	keptBytes = nil
	return fmt.Sprintf("content=%s len=%d cap=%d ptr=%s after=%s", content, l0, c0, ptr, after)
}

func runStk(conv string, obj []byte, off, ln, depth int) string {
	if (conv != "b2s" && conv != "s2b") || len(obj) > stkN || off < 0 || ln < 0 || off+ln > len(obj) ||
		depth < 0 || depth > 8192 {
		return "bad-op"
	}
	// no collection while a kept value may point into a stack (a changed conversion must show up in the result
	// line, not as a runtime crash): finish one now, none until the operation is over
	runtime.GC()
	defer debug.SetGCPercent(debug.SetGCPercent(-1))
	return lib.Guard(func() string { // lib.Guard runs it on a new goroutine
		if conv == "b2s" {
			return stkB2S(obj, off, ln, depth)
		}
		return stkS2B(obj, off, ln, depth)
	})
}

func atois(ts ...string) ([]int, bool) {
	out := make([]int, len(ts))
	for i, t := range ts {
		v, err := strconv.Atoi(t)
		if err != nil {
			return nil, false
		}
		out[i] = v
	}
	return out, true
}

func runOp(f []string) (string, bool) {
	if len(f) < 2 || f[0] != "usx" {
		return "", false
	}
	switch {
	case f[1] == "big" && len(f) == 7: // usx big <conv> <off> <len> <spare> <mark>
		v, ok := atois(f[3], f[4], f[5])
		if !ok {
			return "bad-op", true
		}
		return runBig(f[2], v[0], v[1], v[2], lib.UnHex(f[6])), true
	case f[1] == "stk" && len(f) == 7: // usx stk <conv> <obj> <off> <len> <depth>
		v, ok := atois(f[4], f[5], f[6])
		if !ok {
			return "bad-op", true
		}
		return runStk(f[2], lib.UnHex(f[3]), v[0], v[1], v[2]), true
	}
	if len(f) != 6 {
		return "", false
	}
	switch f[1] {
	case "b2s":
		off, e1 := strconv.Atoi(f[3])
		ln, e2 := strconv.Atoi(f[4])
		cp, e3 := strconv.Atoi(f[5])
		if e1 != nil || e2 != nil || e3 != nil {
			return "bad-op", true
		}
		return runB2S(f[2], off, ln, cp), true
	case "s2b":
		off, e1 := strconv.Atoi(f[3])
		ln, e2 := strconv.Atoi(f[4])
		if e1 != nil || e2 != nil {
			return "bad-op", true
		}
		return runS2B(f[2], off, ln, lib.UnHex(f[5])), true
	}
	return "", false
}

func emit(f ...string) {
	if res, ok := runOp(f); ok {
		em.Line(res, f...)
	}
}

func itoa(n int) string { return strconv.Itoa(n) }

func classify(kind string, objLen, off, ln, cp int) {
	em.Count("op:" + kind)
	switch {
	case ln == 0:
		em.Count(kind + ":len=0")
	case ln == objLen:
		em.Count(kind + ":whole")
	default:
		em.Count(kind + ":window")
	}
	if kind == "b2s" {
		if cp > ln {
			em.Count("b2s:spare-cap")
		} else {
			em.Count("b2s:cap=len")
		}
	} else if off+ln < objLen {
		em.Count("s2b:bytes-follow-in-big-string")
	}
}

func genCases(o *lib.Opts) {
	r := lib.NewRng(o.Seed)
	n := o.N
	if n == 0 {
		n = 8000
		if o.Tier == "thorough" {
			n = 60000
		}
	}
	// 1. nil, empty, literal
	emit("usx", "b2s", "nil", "0", "0", "0")
	emit("usx", "b2s", "-", "0", "0", "0")
	for _, ex := range []string{"-", "41", "4142434445464748494a"} {
		emit("usx", "s2b", "lit", "0", "0", ex)
		emit("usx", "s2b", "-", "0", "0", ex)
	}
	// 2. every window of small objects
	maxObj := 5
	if o.Tier == "thorough" {
		maxObj = 8
	}
	for L := 0; L <= maxObj; L++ {
		obj := make([]byte, L)
		for i := range obj {
			obj[i] = byte(0x10 + i)
		}
		hx := lib.Hex(obj)
		for off := 0; off <= L; off++ {
			for ln := 0; off+ln <= L; ln++ {
				for cp := ln; off+cp <= L; cp++ {
					emit("usx", "b2s", hx, itoa(off), itoa(ln), itoa(cp))
					classify("b2s", L, off, ln, cp)
				}
				for _, ex := range []string{"-", "e1", "e1e2", "e1e2e3e4e5e6e7e8e9"} {
					emit("usx", "s2b", hx, itoa(off), itoa(ln), ex)
					classify("s2b", L, off, ln, 0)
				}
			}
		}
	}
	// 3. random windows of objects around allocator size classes
	for i := 0; i < n; i++ {
		L := r.Pick(1, 2, 7, 8, 9, 15, 16, 17, 31, 32, 33, 48, 64, 100, 1000, 4096)
		if i%50 != 0 && L > 100 {
			L = r.Range(1, 100)
		}
		obj := r.Bytes(L)
		hx := lib.Hex(obj)
		off := r.Intn(L + 1)
		ln := r.Intn(L - off + 1)
		switch r.Intn(6) {
		case 0:
			off, ln = 0, L
		case 1:
			ln = 0
		case 2:
			off = 0
		}
		cp := ln + r.Intn(L-off-ln+1)
		if r.Chance(1, 3) {
			cp = ln
		}
		emit("usx", "b2s", hx, itoa(off), itoa(ln), itoa(cp))
		classify("b2s", L, off, ln, cp)
		ex := r.Bytes(r.Pick(0, 1, 1, 2, 3, 8, L-off-ln, L-off-ln+1, 100))
		emit("usx", "s2b", hx, itoa(off), itoa(ln), lib.Hex(ex))
		classify("s2b", L, off, ln, 0)
		em.Count("s2b:extra=" + func() string {
			switch {
			case len(ex) == 0:
				return "0"
			case len(ex) <= L-off-ln:
				return "fits-in-following-bytes"
			}
			return "beyond"
		}())
	}
	genLarge(o, r)
	genStack(o, r)
	genBig(o, r)
}

// genStack: both conversions on a source in a local array of a fresh goroutine, the result kept beyond the function,
// the stack moved before the result is looked at (seeded change C20/patch1: a noescape helper let the source stay
// on the stack, the kept string then pointed at the old stack)
func genStack(o *lib.Opts, r *lib.Rng) {
	depths := []int{0, 3, 40, 300, 2048}
	reps := 4
	if o.Tier == "thorough" {
		reps = 40
	}
	for _, conv := range []string{"b2s", "s2b"} {
		for _, L := range []int{1, 5, 16, 31, 32, 33, stkN} {
			for _, d := range depths {
				obj := r.Bytes(L)
				emit("usx", "stk", conv, lib.Hex(obj), "0", itoa(L), itoa(d))
				em.Count("stk:" + conv + ":whole")
			}
		}
		for i := 0; i < reps*len(depths); i++ {
			L := r.Range(1, stkN)
			obj := r.Bytes(L)
			off := r.Intn(L + 1)
			ln := r.Intn(L - off + 1)
			d := depths[i%len(depths)]
			if r.Chance(1, 3) {
				d = r.Range(1, 4096)
			}
			emit("usx", "stk", conv, lib.Hex(obj), itoa(off), itoa(ln), itoa(d))
			em.Count("stk:" + conv + ":window")
			if ln == 0 {
				em.Count("stk:" + conv + ":len=0")
			}
		}
	}
}

// genBig: lengths around the powers of two where an array-typed view, an int32 or a uint32 length would give way
// (seeded change C20/patch2: StringToBinary through a *[1<<30]byte panicked above 1 GiB). Memory is only reserved.
func genBig(o *lib.Opts, r *lib.Rng) {
	lens := []int{1<<30 - 1, 1 << 30, 1<<30 + 1, 1 << 31}
	if o.Tier == "thorough" {
		lens = append(lens, 1<<29+1, 1<<31-1, 1<<31+1, 1<<32-1, 1<<32, 1<<32+1)
	}
	for _, n := range lens {
		for _, conv := range []string{"b2s", "s2b"} {
			mark := r.Bytes(r.Pick(1, 4, 8))
			emit("usx", "big", conv, "0", itoa(n), "0", lib.Hex(mark))
			em.Count("big:" + conv + ":whole")
		}
	}
	// a window inside a larger object: spare capacity behind the slice / bytes of the big string around the substring
	for i := 0; i < 2; i++ {
		n := lens[r.Intn(len(lens))] + r.Pick(-2, 0, 2, 4096)
		for _, conv := range []string{"b2s", "s2b"} {
			mark := r.Bytes(r.Pick(2, 4, 8))
			emit("usx", "big", conv, itoa(r.Pick(1, 3, 4096)), itoa(n), itoa(r.Pick(1, 7, 65536)), lib.Hex(mark))
			em.Count("big:" + conv + ":window")
		}
	}
}

func replay(lines [][]string) {
	for _, f := range lines {
		emit(f...)
	}
}

// genLarge: windows with a large spare capacity (a short field cut out of a big pooled buffer) and large
// strings: sharing and cap = len must not depend on how big the backing object is
// (seeded change C20_w6_1: BinaryToString copied when cap-len exceeded 64 KiB)
func genLarge(o *lib.Opts, r *lib.Rng) {
	spares := []int{65535, 65536, 65537, 131072}
	if o.Tier == "thorough" {
		spares = append(spares, 1<<20, 1<<20+1)
	}
	for _, sp := range spares {
		for _, ln := range []int{1, 5, 4096} {
			off := r.Pick(0, 3)
			obj := r.Bytes(off + ln + sp)
			hx := lib.Hex(obj)
			emit("usx", "b2s", hx, itoa(off), itoa(ln), itoa(ln+sp))
			classify("b2s", len(obj), off, ln, ln+sp)
			em.Count("b2s:large-spare-cap")
		}
		big := r.Bytes(sp + 7)
		emit("usx", "s2b", lib.Hex(big), "3", itoa(sp), "e1e2")
		emit("usx", "s2b", lib.Hex(big), "0", "1", "e1e2")
		em.Count("s2b:large-string")
	}
}

func main() {
	o := lib.ParseOpts()
	em = lib.NewEmitter()
	if o.Replay != "" {
		replay(lib.ReadOpLines(o.Replay))
		em.Close(o.Stats)
		return
	}
	replay(lib.ReadOpLines(o.Corpus))
	genCases(o)
	em.Close(o.Stats)
}

// fam_usx: correspondence harness for the zero-copy conversions (C20).
// Line formats: see lean/Drv/Usx.lean. Addresses are never printed, only the boolean relation
// "same data pointer".
package main

import (
	"fmt"
	"strconv"
	"unsafe"

	"github.com/cloudwego/gopkg/unsafex"
	"verifharness/lib"
)

var em *lib.Emitter

// data pointer = first word of a string or slice header
func strData(s *string) unsafe.Pointer   { return *(*unsafe.Pointer)(unsafe.Pointer(s)) }
func sliceData(b *[]byte) unsafe.Pointer { return *(*unsafe.Pointer)(unsafe.Pointer(b)) }

var (
	sinkStr   string // forces the big string onto the heap
	sinkBytes []byte
)

func same(ok bool) string {
	if ok {
		return "same"
	}
	return "diff"
}

func runB2S(obj string, off, ln, cp int) string {
	var o []byte
	switch obj {
	case "nil":
		o = nil
	case "-":
		o = make([]byte, 0)
	default:
		o = lib.UnHex(obj)
	}
	if off < 0 || ln < 0 || ln > cp || off+cp > len(o) || (obj == "nil" && (off|ln|cp) != 0) {
		return "bad-op"
	}
	return lib.Guard(func() string {
		var b []byte
		if obj != "nil" {
			b = o[off : off+ln : off+cp]
		}
		sinkBytes = o
		s := unsafex.BinaryToString(b)
		content := lib.Hex([]byte(s)) // a copy, taken now
		ptr := "-"
		if ln > 0 {
			ptr = same(strData(&s) == sliceData(&b))
		}
		for i := range b { // mutate through the slice: a shared string must follow
			b[i] ^= 0xff
		}
		after := lib.Hex([]byte(s))
		return fmt.Sprintf("content=%s len=%d ptr=%s after=%s", content, len(s), ptr, after)
	})
}

func runS2B(obj string, off, ln int, extra []byte) string {
	var bigBytes []byte
	if obj != "lit" && obj != "-" {
		bigBytes = lib.UnHex(obj)
	}
	if off < 0 || ln < 0 || off+ln > len(bigBytes) {
		return "bad-op"
	}
	return lib.Guard(func() string {
		var big string
		if obj == "lit" {
			big = ""
		} else {
			big = string(bigBytes) // a fresh, writable heap copy
		}
		sinkStr = big
		s := big[off : off+ln]
		b := unsafex.StringToBinary(s)
		content := lib.Hex(append([]byte(nil), b...))
		ptr := "-"
		if ln > 0 {
			ptr = same(sliceData(&b) == strData(&s))
		}
		lb, cb := len(b), cap(b)
		r := append(b, extra...)
		moved := "-"
		if ln > 0 {
			moved = strconv.FormatBool(sliceData(&r) != sliceData(&b))
		}
		orig := "same"
		if sinkStr != string(bigBytes) || len(sinkStr) != len(bigBytes) {
			orig = "changed"
		}
		return fmt.Sprintf("content=%s len=%d cap=%d ptr=%s app=%s moved=%s orig=%s",
			content, lb, cb, ptr, lib.Hex(r), moved, orig)
	})
}

func runOp(f []string) (string, bool) {
	if len(f) != 6 || f[0] != "usx" {
		return "", false
	}
	switch f[1] {
	case "b2s":
		off, e1 := strconv.Atoi(f[3])
		ln, e2 := strconv.Atoi(f[4])
		cp, e3 := strconv.Atoi(f[5])
		if e1 != nil || e2 != nil || e3 != nil {
			return "bad-op", true
		}
		return runB2S(f[2], off, ln, cp), true
	case "s2b":
		off, e1 := strconv.Atoi(f[3])
		ln, e2 := strconv.Atoi(f[4])
		if e1 != nil || e2 != nil {
			return "bad-op", true
		}
		return runS2B(f[2], off, ln, lib.UnHex(f[5])), true
	}
	return "", false
}

func emit(f ...string) {
	if res, ok := runOp(f); ok {
		em.Line(res, f...)
	}
}

func itoa(n int) string { return strconv.Itoa(n) }

func classify(kind string, objLen, off, ln, cp int) {
	em.Count("op:" + kind)
	switch {
	case ln == 0:
		em.Count(kind + ":len=0")
	case ln == objLen:
		em.Count(kind + ":whole")
	default:
		em.Count(kind + ":window")
	}
	if kind == "b2s" {
		if cp > ln {
			em.Count("b2s:spare-cap")
		} else {
			em.Count("b2s:cap=len")
		}
	} else if off+ln < objLen {
		em.Count("s2b:bytes-follow-in-big-string")
	}
}

func genCases(o *lib.Opts) {
	r := lib.NewRng(o.Seed)
	n := o.N
	if n == 0 {
		n = 8000
		if o.Tier == "thorough" {
			n = 60000
		}
	}
	// 1. nil, empty, literal
	emit("usx", "b2s", "nil", "0", "0", "0")
	emit("usx", "b2s", "-", "0", "0", "0")
	for _, ex := range []string{"-", "41", "4142434445464748494a"} {
		emit("usx", "s2b", "lit", "0", "0", ex)
		emit("usx", "s2b", "-", "0", "0", ex)
	}
	// 2. every window of small objects
	maxObj := 5
	if o.Tier == "thorough" {
		maxObj = 8
	}
	for L := 0; L <= maxObj; L++ {
		obj := make([]byte, L)
		for i := range obj {
			obj[i] = byte(0x10 + i)
		}
		hx := lib.Hex(obj)
		for off := 0; off <= L; off++ {
			for ln := 0; off+ln <= L; ln++ {
				for cp := ln; off+cp <= L; cp++ {
					emit("usx", "b2s", hx, itoa(off), itoa(ln), itoa(cp))
					classify("b2s", L, off, ln, cp)
				}
				for _, ex := range []string{"-", "e1", "e1e2", "e1e2e3e4e5e6e7e8e9"} {
					emit("usx", "s2b", hx, itoa(off), itoa(ln), ex)
					classify("s2b", L, off, ln, 0)
				}
			}
		}
	}
	// 3. random windows of objects around allocator size classes
	for i := 0; i < n; i++ {
		L := r.Pick(1, 2, 7, 8, 9, 15, 16, 17, 31, 32, 33, 48, 64, 100, 1000, 4096)
		if i%50 != 0 && L > 100 {
			L = r.Range(1, 100)
		}
		obj := r.Bytes(L)
		hx := lib.Hex(obj)
		off := r.Intn(L + 1)
		ln := r.Intn(L - off + 1)
		switch r.Intn(6) {
		case 0:
			off, ln = 0, L
		case 1:
			ln = 0
		case 2:
			off = 0
		}
		cp := ln + r.Intn(L-off-ln+1)
		if r.Chance(1, 3) {
			cp = ln
		}
		emit("usx", "b2s", hx, itoa(off), itoa(ln), itoa(cp))
		classify("b2s", L, off, ln, cp)
		ex := r.Bytes(r.Pick(0, 1, 1, 2, 3, 8, L-off-ln, L-off-ln+1, 100))
		emit("usx", "s2b", hx, itoa(off), itoa(ln), lib.Hex(ex))
		classify("s2b", L, off, ln, 0)
		em.Count("s2b:extra=" + func() string {
			switch {
			case len(ex) == 0:
				return "0"
			case len(ex) <= L-off-ln:
				return "fits-in-following-bytes"
			}
			return "beyond"
		}())
	}
	genLarge(o, r)
}

func replay(lines [][]string) {
	for _, f := range lines {
		emit(f...)
	}
}

// genLarge: windows with a large spare capacity (a short field cut out of a big pooled buffer) and large
// strings: sharing and cap = len must not depend on how big the backing object is
// (seeded change C20_w6_1: BinaryToString copied when cap-len exceeded 64 KiB)
func genLarge(o *lib.Opts, r *lib.Rng) {
	spares := []int{65535, 65536, 65537, 131072}
	if o.Tier == "thorough" {
		spares = append(spares, 1<<20, 1<<20+1)
	}
	for _, sp := range spares {
		for _, ln := range []int{1, 5, 4096} {
			off := r.Pick(0, 3)
			obj := r.Bytes(off + ln + sp)
			hx := lib.Hex(obj)
			emit("usx", "b2s", hx, itoa(off), itoa(ln), itoa(ln+sp))
			classify("b2s", len(obj), off, ln, ln+sp)
			em.Count("b2s:large-spare-cap")
		}
		big := r.Bytes(sp + 7)
		emit("usx", "s2b", lib.Hex(big), "3", itoa(sp), "e1e2")
		emit("usx", "s2b", lib.Hex(big), "0", "1", "e1e2")
		em.Count("s2b:large-string")
	}
}

func main() {
	o := lib.ParseOpts()
	em = lib.NewEmitter()
	if o.Replay != "" {
		replay(lib.ReadOpLines(o.Replay))
		em.Close(o.Stats)
		return
	}
	replay(lib.ReadOpLines(o.Corpus))
	genCases(o)
	em.Close(o.Stats)
}

// fam_rd: correspondence harness for the buffered reader (C04): operation histories on
// bufiox.DefaultReader (scripted io.Reader source) and bufiox.BytesReader.
//
// Every history starts with a `rd new ...` line (the driver resets its state there) followed by one
// line per operation.  All histories of a run are generated as pure data from (tier, seed, n) before
// anything is executed, so a single op line can be replayed out of context: its trailing tag
// `#<tier>.<seed>.<n>.<hist>.<idx>` names the history and the position, and -replay re-runs the
// history prefix up to that line.  Untagged lines (corpus) are run in file order.
package main

import (
	"fmt"
	"strconv"
	"strings"

	"github.com/cloudwego/gopkg/bufiox"
	"verifharness/lib"
)

var em *lib.Emitter

type Op struct {
	Kind string // next peek skip rb release len
	N    int
}

type Hist struct {
	Class  string
	Bytes  bool
	Stream []byte
	Salt   int64 // >= 0: Stream == content(len, Salt), printed as @len.salt
	Script lib.Script
	Cap    int
	Ops    []Op
}

// content: byte i depends on i in every byte of i, so any offset/ordering/compaction error shows
func content(n int, salt uint32) []byte {
	b := make([]byte, n)
	for i := range b {
		x := (uint32(i)+salt)*2654435761 + uint32(i>>8)*40503
		b[i] = byte(x>>24) ^ byte(i)
	}
	return b
}

// ---------------------------------------------------------------- running

func newLine(h *Hist) []string {
	st := lib.Hex(h.Stream)
	if h.Salt >= 0 && len(h.Stream) > 16 {
		st = fmt.Sprintf("@%d.%d", len(h.Stream), h.Salt)
	}
	if h.Bytes {
		return []string{"rd", "new", "bytes", st, strconv.Itoa(h.Cap)}
	}
	return []string{"rd", "new", "default", st, h.Script.String()}
}

func parseStream(t string) []byte {
	if strings.HasPrefix(t, "@") {
		p := strings.Split(t[1:], ".")
		if len(p) == 2 {
			l, _ := strconv.Atoi(p[0])
			s, _ := strconv.ParseUint(p[1], 10, 32)
			if l >= 0 && l <= 1<<24 {
				return content(l, uint32(s))
			}
		}
		return nil
	}
	return lib.UnHex(t)
}

func mkReader(h *Hist) *bufiox.DefaultReader {
	if h.Bytes {
		var buf []byte
		if h.Cap > 0 {
			buf = make([]byte, len(h.Stream), h.Cap)
			copy(buf, h.Stream)
		}
		return &bufiox.NewBytesReader(buf).DefaultReader
	}
	return bufiox.NewDefaultReader(lib.NewSource(h.Stream, h.Script))
}

func runOp(r *bufiox.DefaultReader, op Op) string {
	return lib.Guard(func() string {
		switch op.Kind {
		case "next":
			b, err := r.Next(op.N)
			if err != nil || (b == nil && op.N != 0) {
				return "err " + lib.ErrStr(err)
			}
			return "ok " + lib.Hex(b)
		case "peek":
			b, err := r.Peek(op.N)
			if err != nil || (b == nil && op.N != 0) {
				return "err " + lib.ErrStr(err)
			}
			return "ok " + lib.Hex(b)
		case "skip":
			if err := r.Skip(op.N); err != nil {
				return "err " + lib.ErrStr(err)
			}
			return "ok"
		case "rb":
			bs := make([]byte, op.N)
			for i := range bs {
				bs[i] = 0x5a
			}
			m, err := r.ReadBinary(bs)
			k := m
			if k > len(bs) {
				k = len(bs)
			}
			if k < 0 {
				k = 0
			}
			return fmt.Sprintf("rb %d %s %s", m, lib.Hex(bs[:k]), lib.ErrStr(err))
		case "release", "releasee":
			var e error
			if op.Kind == "releasee" { // Release(e) with a non-nil error value: must behave like Release(nil)
				e = lib.InjErr(op.N)
			}
			if err := r.Release(e); err != nil {
				return "err " + lib.ErrStr(err)
			}
			return "ok"
		case "len":
			return strconv.Itoa(r.ReadLen())
		}
		return "bad-op"
	})
}

func opFields(op Op) []string {
	switch op.Kind {
	case "release", "len":
		return []string{"rd", op.Kind}
	case "releasee":
		return []string{"rd", "release", "e" + strconv.Itoa(op.N)}
	}
	return []string{"rd", op.Kind, strconv.Itoa(op.N)}
}

func sizeClass(n int) string {
	switch {
	case n < 0:
		return "neg"
	case n <= 2:
		return strconv.Itoa(n)
	case n < 4095:
		return "<4095"
	case n <= 4097:
		return strconv.Itoa(n)
	case n < 8192:
		return "<8192"
	case n == 8192:
		return "8192"
	}
	return ">8192"
}

func firstTok(s string) string {
	f := strings.Fields(s)
	if len(f) == 0 {
		return ""
	}
	if f[0] == "err" || f[0] == "PANIC" {
		return s
	}
	if f[0] == "rb" && len(f) == 4 {
		return "rb:" + f[3]
	}
	if f[0] == "ok" {
		return "ok"
	}
	return "num"
}

// runHist executes ops [from, upto) of h on r (creating the reader when from == 0) and emits lines.
func runHist(h *Hist, tag string, r *bufiox.DefaultReader, from, upto int, count bool) *bufiox.DefaultReader {
	mk := func(i int, f []string) []string {
		if tag == "" {
			return f
		}
		return append(f, fmt.Sprintf("#%s.%d", tag, i))
	}
	if from == 0 {
		r = mkReader(h)
		em.Line("ok", mk(0, newLine(h))...)
		from = 1
		if count {
			em.Count("class:" + h.Class)
			if h.Bytes {
				em.Count("kind:bytes")
				switch {
				case h.Cap == 0:
					em.Count("bytescap:zero")
				case h.Cap == len(h.Stream):
					em.Count("bytescap:exact")
				case h.Cap&(h.Cap-1) == 0:
					em.Count("bytescap:pow2")
				default:
					em.Count("bytescap:spare")
				}
			} else {
				em.Count("kind:default")
				em.Count("script:" + scriptClass(h.Script))
			}
			em.Count("streamlen:" + sizeClass(len(h.Stream)))
		}
	}
	for i := from; i <= len(h.Ops) && i < upto; i++ {
		op := h.Ops[i-1]
		res := runOp(r, op)
		if count {
			em.Count("op:" + op.Kind)
			if op.Kind != "release" && op.Kind != "releasee" && op.Kind != "len" {
				em.Count("n:" + sizeClass(op.N))
			}
			em.Count("res:" + op.Kind + ":" + firstTok(res))
		}
		em.Line(res, mk(i, opFields(op))...)
	}
	return r
}

func scriptClass(s lib.Script) string {
	hasErr, zeros, mid, run, maxrun := false, 0, false, 0, 0
	for i, r := range s {
		if r.Err >= 0 {
			hasErr = true
			if i != len(s)-1 {
				mid = true
			}
		}
		if r.K == 0 {
			zeros++
			run++
			if run > maxrun {
				maxrun = run
			}
		} else {
			run = 0
		}
	}
	c := "plain"
	if hasErr {
		c = "final-err"
	}
	if mid {
		c = "mid-err"
	}
	if len(s) == 0 {
		c = "empty"
	}
	if maxrun >= 100 {
		c += "+zeros>=100"
	} else if zeros > 0 {
		c += "+zeros"
	}
	return c
}

// ---------------------------------------------------------------- scripts

func rep(s lib.Script, k, e, times int) lib.Script {
	for i := 0; i < times; i++ {
		s = append(s, lib.Resp{K: k, Err: e})
	}
	return s
}

// styleScript: deterministic script styles for the bounded-exhaustive part
func styleScript(r *lib.Rng, style string, L int) lib.Script {
	var s lib.Script
	switch style {
	case "fits": // every Read fills whatever room is offered
		return rep(s, 1<<20, -1, L/64+4)
	case "4096":
		return rep(s, 4096, -1, L/4096+2)
	case "boundary":
		ch := []int{1, 2, 4095, 4096, 4097, 8192, 1, 4095, 2}
		for left, i := L, 0; left > 0; i++ {
			k := ch[i%len(ch)]
			s = append(s, lib.Resp{K: k, Err: -1})
			left -= k
		}
		return s
	case "small":
		for left := L; left > 0; {
			k := r.Range(17, 64)
			s = append(s, lib.Resp{K: k, Err: -1})
			left -= k
		}
		return s
	case "data+eof": // final data arrives together with io.EOF
		for left := L; left > 0; {
			k := 3000
			if k >= left {
				s = append(s, lib.Resp{K: left, Err: 0})
				break
			}
			s = append(s, lib.Resp{K: k, Err: -1})
			left -= k
		}
		return s
	case "one+eof": // everything that fits, with io.EOF, on the first Read
		return lib.Script{{K: 1 << 20, Err: 0}}
	case "mid-err": // an injected error halfway, together with data
		s = rep(s, 1500, -1, L/3000)
		s = append(s, lib.Resp{K: 700, Err: 2})
		return rep(s, 1500, -1, L/1500+1)
	case "zeros99": // runs of 99 empty reads between chunks
		for left := L; left > 0; left -= 2500 {
			s = rep(s, 0, -1, 99)
			s = append(s, lib.Resp{K: 2500, Err: -1})
		}
		return s
	case "zeros100": // one chunk, then 100 empty reads
		s = append(s, lib.Resp{K: 4000, Err: -1})
		s = rep(s, 0, -1, 100)
		return rep(s, 4096, -1, L/4096+1)
	case "cut": // the script ends (EOF by exhaustion) before the stream does
		return rep(s, 1000, -1, L/2000)
	case "chunk5000":
		return rep(s, 5000, -1, L/5000+2)
	case "chunk3000":
		return rep(s, 3000, -1, L/3000+2)
	case "empty":
		return nil
	}
	return nil
}

// steadyScript: every byte deliverable whatever the room (the driver's `Steady`)
func steadyScript(r *lib.Rng, total int) lib.Script {
	var s lib.Script
	switch r.Intn(3) {
	case 0: // 1-byte chunks with short zero runs, optionally the last byte together with an error
		for i := 0; i < total; i++ {
			if r.Chance(1, 30) {
				s = rep(s, 0, -1, r.Pick(1, 2, 99))
			}
			s = append(s, lib.Resp{K: 1, Err: -1})
		}
		if total > 0 && r.Bool() {
			s[len(s)-1].Err = r.Pick(0, 0, 2)
		}
	case 1: // "as much as fits" chunks; one entry per byte is always enough
		s = rep(s, 1<<20, -1, total)
	default: // mixed chunk sizes, at least one entry per byte
		for i := 0; i < total; i++ {
			s = append(s, lib.Resp{K: r.Pick(1, 3, 64, 4096, 5000), Err: -1})
			if r.Chance(1, 50) {
				s = rep(s, 0, -1, r.Pick(1, 50, 99))
			}
		}
	}
	// anything may follow once every byte is out
	switch r.Intn(4) {
	case 0:
		s = append(s, lib.Resp{K: 0, Err: r.Pick(0, 1, 3)})
	case 1:
		s = rep(s, 0, -1, r.Pick(1, 100, 150))
	}
	return s
}

// ---------------------------------------------------------------- generation (pure data)

var sizeAlpha = []int{0, 1, 2, 4095, 4096, 4097, 8192, 12289}

func alphabet(sizes []int) []Op {
	var a []Op
	for _, k := range []string{"next", "peek", "skip", "rb"} {
		for _, n := range sizes {
			a = append(a, Op{k, n})
		}
	}
	return append(a, Op{"release", 0}, Op{"releasee", 0}, Op{"len", 0})
}

func exhaustive(out []Hist, class string, proto Hist, alpha []Op, depth int, tail []Op) []Hist {
	var rec func(cur []Op)
	rec = func(cur []Op) {
		if len(cur) == depth {
			h := proto
			h.Class = class
			h.Ops = append(append([]Op(nil), cur...), tail...)
			out = append(out, h)
			return
		}
		for _, a := range alpha {
			rec(append(append([]Op(nil), cur...), a))
		}
	}
	rec(nil)
	return out
}

func pow2(n int) int {
	c := 1
	for c < n {
		c *= 2
	}
	return c
}

func randomOps(r *lib.Rng, L int, nops int) []Op {
	var ops []Op
	pos := 0 // where a correct reader would be (used only to aim sizes at the interesting spots)
	profile := r.Intn(4)
	for len(ops) < nops {
		rem := L - pos
		if rem < 0 {
			rem = 0
		}
		var n int
		switch c := r.Intn(20); {
		case c < 9:
			n = r.Range(0, 64)
		case c < 12:
			n = r.Pick(0, 1, 2, 4095, 4096, 4097, 8192)
		case c < 14:
			n = rem + r.Pick(-1, 0, 0, 1, 1, 2, 5000)
			if n < 0 {
				n = 0
			}
		case c < 16:
			n = r.Range(0, 700)
		case c < 17:
			n = r.Range(4000, 9000)
		case c < 18:
			n = r.Pick(8193, 12289, 16385, 20000)
		default:
			n = r.Range(0, 8)
		}
		if profile == 0 && n > 300 && r.Chance(3, 4) { // long histories of small steps
			n = r.Range(0, 300)
		}
		k := r.Intn(100)
		switch {
		case k < 30:
			ops = append(ops, Op{"next", n})
			if n <= rem {
				pos += n
			}
		case k < 45:
			ops = append(ops, Op{"peek", n})
		case k < 57:
			ops = append(ops, Op{"skip", n})
			if n <= rem {
				pos += n
			}
		case k < 75:
			ops = append(ops, Op{"rb", n})
			if n <= rem {
				pos += n
			} else {
				pos = L
			}
		case k < 81:
			ops = append(ops, Op{"release", 0})
		case k < 85:
			ops = append(ops, Op{"releasee", r.Pick(0, 0, 1, 3)})
		case k < 97:
			ops = append(ops, Op{"len", 0})
		default:
			ops = append(ops, Op{[]string{"next", "peek", "skip"}[r.Intn(3)], -r.Pick(1, 1, 2, 4096, 1<<31, 1<<62)})
		}
	}
	return ops
}

func genAll(o *lib.Opts) []Hist {
	r := lib.NewRng(o.Seed)
	thorough := o.Tier == "thorough"
	var out []Hist
	salt := uint32(o.Seed) * 7919
	tail := []Op{{"len", 0}, {"next", 3}, {"len", 0}}

	// 1. bounded-exhaustive short histories: sizes x script styles, both reader kinds
	full := alphabet(sizeAlpha)
	styles := []string{"fits", "boundary", "data+eof", "one+eof", "mid-err", "zeros99", "zeros100", "cut", "small", "4096", "empty"}
	streamLens := []int{12289, 4097, 20000, 8192, 2, 0}
	// depth 1: every op x every style x several stream lengths
	for _, st := range styles {
		for _, L := range streamLens {
			if !thorough && L != 12289 && L != 4097 && L != 2 {
				continue
			}
			p := Hist{Stream: content(L, salt), Salt: int64(salt), Script: styleScript(r, st, L)}
			out = exhaustive(out, "exh1:"+st, p, full, 1, tail)
		}
	}
	// depth 2 over the full alphabet
	d2 := []string{"boundary", "one+eof"}
	if thorough {
		d2 = []string{"boundary", "one+eof", "data+eof", "mid-err", "zeros100", "small", "cut"}
	}
	for _, st := range d2 {
		L := 12289
		p := Hist{Stream: content(L, salt+1), Salt: int64(salt + 1), Script: styleScript(r, st, L)}
		out = exhaustive(out, "exh2:"+st, p, full, 2, tail)
	}
	// depth 3 over a reduced size alphabet
	red := alphabet([]int{1, 4097})
	d3 := []string{"data+eof"}
	if thorough {
		red = alphabet([]int{1, 4097, 12289})
		d3 = []string{"4096", "data+eof", "zeros100", "mid-err"}
	}
	for _, st := range d3 {
		L := 9000
		p := Hist{Stream: content(L, salt+2), Salt: int64(salt + 2), Script: styleScript(r, st, L)}
		out = exhaustive(out, "exh3:"+st, p, red, 3, tail)
	}
	if thorough { // depth 4 on a tiny alphabet around one buffer boundary
		tiny := []Op{{"next", 4095}, {"peek", 4097}, {"rb", 2}, {"skip", 1}, {"releasee", 3}, {"rb", 8192}}
		p := Hist{Stream: content(14000, salt+3), Salt: int64(salt + 3), Script: styleScript(r, "boundary", 14000)}
		out = exhaustive(out, "exh4:boundary", p, tiny, 4, tail)
		p = Hist{Stream: content(14000, salt+3), Salt: int64(salt + 3), Script: styleScript(r, "data+eof", 14000)}
		out = exhaustive(out, "exh4:data+eof", p, tiny, 4, tail)
	}
	// grow with an unreleased consumed prefix: X(a), Y(b) without Release over plain chunked sources
	// (bytes.Reader-like "fits", fixed chunks): the grown buffer must hold b UNREAD bytes behind ri = a
	for _, st := range []string{"fits", "4096", "chunk5000", "chunk3000", "small"} {
		L := 12000
		p := Hist{Stream: content(L, salt+6), Salt: int64(salt + 6), Script: styleScript(r, st, L)}
		for _, a := range []int{3000, 4096, 1, 4095} {
			for _, b := range []int{4097, 6000, 8192, 5000} {
				for _, k1 := range []string{"next", "skip"} {
					for _, k2 := range []string{"next", "peek", "skip", "rb"} {
						h := p
						h.Class = "grow:" + st
						h.Ops = append([]Op{{k1, a}, {k2, b}}, tail...)
						out = append(out, h)
						if thorough || (a == 3000 && k1 == "next") {
							h.Ops = append([]Op{{k1, a}, {"release", 0}, {k2, b}}, tail...)
							out = append(out, h)
							h.Ops = append([]Op{{k1, a}, {"peek", b}, {k2, b}, {"next", L - a - b}}, tail...)
							out = append(out, h)
						}
					}
				}
			}
		}
	}
	// bytes readers: exact / spare / power-of-two / zero capacities
	type bc struct{ L, cap int }
	bcs := []bc{{0, 0}, {0, 8}, {1, 1}, {2, 7}, {4096, 4096}, {4097, 4097}, {4097, 8192}, {8192, 8192}, {12289, 12289}, {12289, 16384}, {5000, 5100}}
	for _, c := range bcs {
		if !thorough && (c.L == 8192 || c.L == 5000) {
			continue
		}
		p := Hist{Bytes: true, Stream: content(c.L, salt+4), Salt: int64(salt + 4), Cap: c.cap}
		out = exhaustive(out, "exh1:bytes", p, full, 1, tail)
		if (c.L == 12289 && c.cap == 16384) || c.L == 2 || (c.L == 0 && c.cap == 0) || (thorough && c.L != 8192 && c.L != 5000) {
			out = exhaustive(out, "exh2:bytes", p, full, 2, tail)
		}
	}
	{
		p := Hist{Bytes: true, Stream: content(9000, salt+5), Salt: int64(salt + 5), Cap: 9000}
		out = exhaustive(out, "exh3:bytes", p, red, 3, tail)
	}

	// 2. random histories up to 300 ops
	n := o.N
	if n == 0 {
		n = 160
		if thorough {
			n = 2500
		}
	}
	for i := 0; i < n; i++ {
		L := r.Pick(0, 1, 2, 10, 100, 1000, 4095, 4096, 4097, 8192, 8193, 12289, 20000)
		if r.Chance(1, 3) {
			L = r.Range(0, 20000)
		}
		if thorough && r.Chance(1, 40) {
			L = r.Range(20000, 120000)
		}
		h := Hist{Class: "random", Stream: content(L, salt+uint32(i)*13+9), Salt: int64(salt + uint32(i)*13 + 9)}
		// the Lean model is list-based: one scripted Read costs O(stream), so bound reads x length
		fit := func(mk func(L int) lib.Script) {
			for {
				h.Script = mk(L)
				if len(h.Script)*L <= 3000000 {
					return
				}
				L = r.Range(0, L/2)
				h.Stream = h.Stream[:L]
			}
		}
		switch k := r.Intn(10); {
		case k < 3:
			h.Bytes = true
			h.Cap = L + r.Pick(0, 0, 1, 7, 100)
			if r.Chance(1, 4) {
				h.Cap = pow2(L)
			}
			if L == 0 {
				h.Cap = r.Pick(0, 0, 1, 8)
			}
		case k < 6:
			fit(func(L int) lib.Script { return steadyScript(r, L) })
			h.Class = "random-steady"
		case k < 7 && r.Chance(1, 2): // chunked, final data together with the error, stream fits the first buffer
			if L > 4096 {
				L = r.Range(0, 4096)
				h.Stream = h.Stream[:L]
			}
			var sc lib.Script
			for left := L; left > 0; {
				k := r.Pick(1, 2, 7, 64, 700, 4096)
				if k >= left {
					sc = append(sc, lib.Resp{K: k, Err: r.Pick(-1, 0, 0, 3)})
					break
				}
				sc = append(sc, lib.Resp{K: k, Err: -1})
				left -= k
			}
			h.Script = sc
			h.Class = "random-chunks"
		case k < 7:
			st := []string{"fits", "boundary", "data+eof", "one+eof", "mid-err", "zeros99", "zeros100", "cut", "small", "4096", "empty"}
			style := st[r.Intn(len(st))]
			fit(func(L int) lib.Script { return styleScript(r, style, L) })
		default:
			fit(func(L int) lib.Script { return lib.GenScript(r, L) })
		}
		nops := r.Pick(3, 10, 30, 60, 120, 300)
		h.Ops = randomOps(r, L, nops)
		out = append(out, h)
	}
	return out
}

// ---------------------------------------------------------------- replay

func parseTag(f []string) (fields []string, tier string, seed uint64, n, hist, idx int, ok bool) {
	fields = f
	if len(f) == 0 || !strings.HasPrefix(f[len(f)-1], "#") {
		return
	}
	t := strings.Split(f[len(f)-1][1:], ".")
	fields = f[:len(f)-1]
	if len(t) != 5 {
		return
	}
	tier = t[0]
	s, e1 := strconv.ParseUint(t[1], 10, 64)
	nn, e2 := strconv.Atoi(t[2])
	h, e3 := strconv.Atoi(t[3])
	i, e4 := strconv.Atoi(t[4])
	if e1 != nil || e2 != nil || e3 != nil || e4 != nil {
		return
	}
	return fields, tier, s, nn, h, i, true
}

func parseOpFields(f []string) (Op, bool) {
	if len(f) < 2 || f[0] != "rd" {
		return Op{}, false
	}
	switch f[1] {
	case "release":
		if len(f) == 3 && strings.HasPrefix(f[2], "e") {
			k, err := strconv.Atoi(f[2][1:])
			return Op{"releasee", k}, err == nil
		}
		return Op{f[1], 0}, len(f) == 2
	case "len":
		return Op{f[1], 0}, len(f) == 2
	case "next", "peek", "skip", "rb":
		if len(f) != 3 {
			return Op{}, false
		}
		n, err := strconv.Atoi(f[2])
		return Op{f[1], n}, err == nil
	}
	return Op{}, false
}

func replay(lines [][]string) {
	var r *bufiox.DefaultReader
	curKey, curIdx := "", 0
	var curHist *Hist
	cache := map[string][]Hist{}
	for _, raw := range lines {
		f, tier, seed, n, hi, idx, tagged := parseTag(raw)
		if tagged {
			key := fmt.Sprintf("%s.%d.%d", tier, seed, n)
			hs, ok := cache[key]
			if !ok {
				hs = genAll(&lib.Opts{Seed: seed, Tier: tier, N: n})
				cache[key] = hs
			}
			if hi < 0 || hi >= len(hs) {
				continue
			}
			hkey := fmt.Sprintf("%s.%d", key, hi)
			if hkey != curKey || idx <= curIdx || r == nil {
				curKey, curIdx, curHist = hkey, -1, &hs[hi]
			}
			r = runHist(curHist, hkey, r, curIdx+1, idx+1, false)
			curIdx = idx
			continue
		}
		curKey = ""
		if len(f) == 5 && f[0] == "rd" && f[1] == "new" {
			h := &Hist{Stream: parseStream(f[3]), Salt: -1}
			if f[2] == "bytes" {
				h.Bytes = true
				h.Cap, _ = strconv.Atoi(f[4])
				if h.Cap < len(h.Stream) {
					continue
				}
			} else {
				h.Script = lib.ParseScript(f[4])
			}
			r = mkReader(h)
			em.Line("ok", f...)
			continue
		}
		op, ok := parseOpFields(f)
		if !ok || r == nil {
			continue
		}
		em.Line(runOp(r, op), f...)
	}
}

func main() {
	o := lib.ParseOpts()
	em = lib.NewEmitter()
	if o.Replay != "" {
		replay(lib.ReadOpLines(o.Replay))
		em.Close(o.Stats)
		return
	}
	replay(lib.ReadOpLines(o.Corpus))
	hs := genAll(o)
	key := fmt.Sprintf("%s.%d.%d", o.Tier, o.Seed, o.N)
	for i := range hs {
		runHist(&hs[i], fmt.Sprintf("%s.%d", key, i), nil, 0, len(hs[i].Ops)+1, true)
	}
	em.Close(o.Stats)
}

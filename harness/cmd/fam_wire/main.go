// fam_wire: correspondence harness for the Thrift Binary scalar/header codec and the message
// envelope (C01, C12; C03/C17 parts for the buffer readers).
package main

import (
	"bytes"
	"encoding/binary"
	"errors"
	"flag"
	"fmt"
	"math"
	"strconv"
	"strings"

	"github.com/bytedance/gopkg/lang/mcache"
	"github.com/cloudwego/gopkg/bufiox"
	"github.com/cloudwego/gopkg/protocol/thrift"
	"verifharness/lib"
)

const allocCap = 1 << 20

var em *lib.Emitter

// Val is one codec argument bundle; K selects the function family.
type Val struct {
	K      string // bool i8 i16 i32 i64 double binary string field stop map list set msg
	B      bool
	I      int64  // i8..i64, field id, msg seq
	U      uint64 // double bits
	S      []byte // binary/string/msg name
	T, T2  int    // type bytes 0..255
	N      int    // container size
	MsgTyp int32
}

func (v Val) Toks() []string {
	switch v.K {
	case "bool":
		if v.B {
			return []string{"bool", "1"}
		}
		return []string{"bool", "0"}
	case "i8", "i16", "i32", "i64":
		return []string{v.K, strconv.FormatInt(v.I, 10)}
	case "double":
		return []string{"double", strconv.FormatUint(v.U, 10)}
	case "binary", "string":
		return []string{v.K, lib.Hex(v.S)}
	case "field":
		return []string{"field", strconv.Itoa(v.T), strconv.FormatInt(v.I, 10)}
	case "stop":
		return []string{"stop"}
	case "map":
		return []string{"map", strconv.Itoa(v.T), strconv.Itoa(v.T2), strconv.Itoa(v.N)}
	case "list", "set":
		return []string{v.K, strconv.Itoa(v.T), strconv.Itoa(v.N)}
	case "msg":
		return []string{"msg", lib.Hex(v.S), strconv.FormatInt(int64(v.MsgTyp), 10), strconv.FormatInt(v.I, 10)}
	}
	panic("bad val kind " + v.K)
}

func ParseVal(f []string) (v Val, ok bool) {
	defer func() {
		if recover() != nil {
			ok = false
		}
	}()
	if len(f) == 0 {
		return v, false
	}
	v.K = f[0]
	pi := func(s string) int64 {
		n, err := strconv.ParseInt(s, 10, 64)
		if err != nil {
			panic(err)
		}
		return n
	}
	switch f[0] {
	case "bool":
		v.B = f[1] == "1"
	case "i8", "i16", "i32", "i64":
		v.I = pi(f[1])
	case "double":
		u, err := strconv.ParseUint(f[1], 10, 64)
		if err != nil {
			panic(err)
		}
		v.U = u
	case "binary", "string":
		v.S = lib.UnHex(f[1])
	case "field":
		v.T, v.I = int(pi(f[1])), pi(f[2])
	case "stop":
	case "map":
		v.T, v.T2, v.N = int(pi(f[1])), int(pi(f[2])), int(pi(f[3]))
	case "list", "set":
		v.T, v.N = int(pi(f[1])), int(pi(f[2]))
	case "msg":
		v.S, v.MsgTyp, v.I = lib.UnHex(f[1]), int32(pi(f[2])), pi(f[3])
	default:
		return v, false
	}
	return v, true
}

// kindOf: the reader that reads this value back
func (v Val) ReadKind() string {
	if v.K == "stop" {
		return "field"
	}
	return v.K
}

// refEnc: the harness's own encoder (inputs for the readers do not come from the code under test)
func refEnc(v Val) []byte {
	u16 := func(b []byte, x uint16) []byte { return append(b, byte(x>>8), byte(x)) }
	u32 := func(b []byte, x uint32) []byte { return append(b, byte(x>>24), byte(x>>16), byte(x>>8), byte(x)) }
	u64 := func(b []byte, x uint64) []byte { return u32(u32(b, uint32(x>>32)), uint32(x)) }
	switch v.K {
	case "bool":
		if v.B {
			return []byte{1}
		}
		return []byte{0}
	case "i8":
		return []byte{byte(v.I)}
	case "i16":
		return u16(nil, uint16(v.I))
	case "i32":
		return u32(nil, uint32(v.I))
	case "i64":
		return u64(nil, uint64(v.I))
	case "double":
		return u64(nil, v.U)
	case "binary", "string":
		return append(u32(nil, uint32(len(v.S))), v.S...)
	case "field":
		return u16([]byte{byte(v.T)}, uint16(v.I))
	case "stop":
		return []byte{0}
	case "map":
		return u32([]byte{byte(v.T), byte(v.T2)}, uint32(v.N))
	case "list", "set":
		return u32([]byte{byte(v.T)}, uint32(v.N))
	case "msg":
		b := u32(nil, 0x80010000|uint32(v.MsgTyp)&0xffff)
		b = append(u32(b, uint32(len(v.S))), v.S...)
		return u32(b, uint32(v.I))
	}
	panic("refEnc")
}

func tt(t int) thrift.TType { return thrift.TType(int8(t)) }

// ---------------------------------------------------------------- the real code

func runInplace(n int, v Val) string {
	return lib.Guard(func() string {
		buf := bytes.Repeat([]byte{0xA5}, n)
		buf = buf[:n:n]
		var l int
		p := thrift.Binary
		switch v.K {
		case "bool":
			l = p.WriteBool(buf, v.B)
		case "i8":
			l = p.WriteByte(buf, int8(v.I))
		case "i16":
			l = p.WriteI16(buf, int16(v.I))
		case "i32":
			l = p.WriteI32(buf, int32(v.I))
		case "i64":
			l = p.WriteI64(buf, v.I)
		case "double":
			l = p.WriteDouble(buf, math.Float64frombits(v.U))
		case "binary":
			l = p.WriteBinary(buf, v.S)
		case "string":
			l = p.WriteString(buf, string(v.S))
		case "field":
			l = p.WriteFieldBegin(buf, tt(v.T), int16(v.I))
		case "stop":
			l = p.WriteFieldStop(buf)
		case "map":
			l = p.WriteMapBegin(buf, tt(v.T), tt(v.T2), v.N)
		case "list":
			l = p.WriteListBegin(buf, tt(v.T), v.N)
		case "set":
			l = p.WriteSetBegin(buf, tt(v.T), v.N)
		case "msg":
			l = p.WriteMessageBegin(buf, string(v.S), thrift.TMessageType(v.MsgTyp), int32(v.I))
		}
		return fmt.Sprintf("ok %s %d", lib.Hex(buf), l)
	})
}

// appendSpares: the spare capacities a destination of an Append* call is given, for an encoding of L bytes: none,
// one byte short, exactly enough, a little more, much more
func appendSpares(L int) []int {
	sp := []int{0}
	if L > 1 {
		sp = append(sp, L-1)
	}
	return append(sp, L, L+7, 2*L+64)
}

// runAppend: the destination ALREADY HOLDS `prefix`. The call is made on destinations that differ only in their
// spare capacity (appendSpares; the spare room is dirty memory, 0xA5, and nothing is assumed about the backing
// array beyond the result afterwards). Appending means: every result is prefix ++ encoding whatever the capacity, and
// the caller's own view of the prefix still holds the prefix. When all results agree that one result is printed
// (always, on code where the destination's capacity is not observable); otherwise the result without spare capacity
// followed by the first deviating one, marked with its spare capacity.
func runAppend(prefix []byte, v Val) string {
	return lib.Guard(func() string {
		L := len(refEnc(v))
		first, out := "", ""
		for i, spare := range appendSpares(L) {
			back := bytes.Repeat([]byte{0xA5}, len(prefix)+spare)
			copy(back, prefix)
			dst := back[: len(prefix) : len(prefix)+spare]
			res := lib.Hex(appendOne(dst, v))
			if !bytes.Equal(back[:len(prefix)], prefix) {
				res += " prefix-changed"
			}
			if i == 0 {
				first, out = res, "ok "+res
			} else if res != first && out == "ok "+first {
				out += fmt.Sprintf(" spare%d:%s", spare, res)
			}
		}
		return out
	})
}

func appendOne(buf []byte, v Val) []byte {
	p := thrift.Binary
	switch v.K {
	case "bool":
		buf = p.AppendBool(buf, v.B)
	case "i8":
		buf = p.AppendByte(buf, int8(v.I))
	case "i16":
		buf = p.AppendI16(buf, int16(v.I))
	case "i32":
		buf = p.AppendI32(buf, int32(v.I))
	case "i64":
		buf = p.AppendI64(buf, v.I)
	case "double":
		buf = p.AppendDouble(buf, math.Float64frombits(v.U))
	case "binary":
		buf = p.AppendBinary(buf, v.S)
	case "string":
		buf = p.AppendString(buf, string(v.S))
	case "field":
		buf = p.AppendFieldBegin(buf, tt(v.T), int16(v.I))
	case "stop":
		buf = p.AppendFieldStop(buf)
	case "map":
		buf = p.AppendMapBegin(buf, tt(v.T), tt(v.T2), v.N)
	case "list":
		buf = p.AppendListBegin(buf, tt(v.T), v.N)
	case "set":
		buf = p.AppendSetBegin(buf, tt(v.T), v.N)
	case "msg":
		buf = p.AppendMessageBegin(buf, string(v.S), thrift.TMessageType(v.MsgTyp), int32(v.I))
	}
	return buf
}

func runLen(v Val) string {
	return lib.Guard(func() string {
		p := thrift.Binary
		var l int
		switch v.K {
		case "bool":
			l = p.BoolLength()
		case "i8":
			l = p.ByteLength()
		case "i16":
			l = p.I16Length()
		case "i32":
			l = p.I32Length()
		case "i64":
			l = p.I64Length()
		case "double":
			l = p.DoubleLength()
		case "binary":
			l = p.BinaryLength(v.S)
			if l2 := p.BinaryLengthNocopy(v.S); l2 != l {
				return fmt.Sprintf("ok %d/%d", l, l2)
			}
		case "string":
			l = p.StringLength(string(v.S))
			if l2 := p.StringLengthNocopy(string(v.S)); l2 != l {
				return fmt.Sprintf("ok %d/%d", l, l2)
			}
		case "field":
			l = p.FieldBeginLength()
		case "stop":
			l = p.FieldStopLength()
		case "map":
			l = p.MapBeginLength()
		case "list":
			l = p.ListBeginLength()
		case "set":
			l = p.SetBeginLength()
		case "msg":
			l = p.MessageBeginLength(string(v.S))
		}
		return fmt.Sprintf("ok %d", l)
	})
}

type failSink struct{ k int }

func (s failSink) Write(p []byte) (int, error) { return 0, lib.InjErr(s.k) }

func streamWrite(bw *thrift.BufferWriter, v Val) error {
	switch v.K {
	case "bool":
		return bw.WriteBool(v.B)
	case "i8":
		return bw.WriteByte(int8(v.I))
	case "i16":
		return bw.WriteI16(int16(v.I))
	case "i32":
		return bw.WriteI32(int32(v.I))
	case "i64":
		return bw.WriteI64(v.I)
	case "double":
		return bw.WriteDouble(math.Float64frombits(v.U))
	case "binary":
		return bw.WriteBinary(v.S)
	case "string":
		return bw.WriteString(string(v.S))
	case "field":
		return bw.WriteFieldBegin(tt(v.T), int16(v.I))
	case "stop":
		return bw.WriteFieldStop()
	case "map":
		return bw.WriteMapBegin(tt(v.T), tt(v.T2), v.N)
	case "list":
		return bw.WriteListBegin(tt(v.T), v.N)
	case "set":
		return bw.WriteSetBegin(tt(v.T), v.N)
	case "msg":
		return bw.WriteMessageBegin(string(v.S), thrift.TMessageType(v.MsgTyp), int32(v.I))
	}
	panic("streamWrite")
}

// setup: d:<prefix hex> | b<cap>:<prefix hex> | f<k>
func runStreamWrite(setup string, v Val) string {
	return lib.Guard(func() string {
		if setup[0] == 'f' {
			k, _ := strconv.Atoi(setup[1:])
			w := bufiox.NewDefaultWriter(failSink{k})
			w.WriteBinary([]byte{1})
			w.Flush() // fails: the error is sticky from now on
			bw := thrift.NewBufferWriter(w)
			if err := streamWrite(bw, v); err != nil {
				return "err " + lib.ErrStr(err)
			}
			return "ok written-after-failure"
		}
		i := strings.IndexByte(setup, ':')
		prefix := lib.UnHex(setup[i+1:])
		var w bufiox.Writer
		var sink bytes.Buffer
		var target []byte
		isBytes := setup[0] == 'b'
		if isBytes {
			c, _ := strconv.Atoi(setup[1:i])
			target = make([]byte, 0, c)
			w = bufiox.NewBytesWriter(&target)
		} else {
			w = bufiox.NewDefaultWriter(&sink)
		}
		if len(prefix) > 0 {
			if _, err := w.WriteBinary(prefix); err != nil {
				return "err " + lib.ErrStr(err)
			}
		}
		bw := thrift.NewBufferWriter(w)
		if err := streamWrite(bw, v); err != nil {
			return "err " + lib.ErrStr(err)
		}
		if err := w.Flush(); err != nil {
			return "err " + lib.ErrStr(err)
		}
		if isBytes {
			return "ok " + lib.Hex(target)
		}
		return "ok " + lib.Hex(sink.Bytes())
	})
}

type recSink struct{ chunks [][]byte }

func (s *recSink) Write(p []byte) (int, error) {
	s.chunks = append(s.chunks, append([]byte(nil), p...))
	return len(p), nil
}

type brokenSink struct{}

func (brokenSink) Write(p []byte) (int, error) { return 0, errors.New("wire harness: broken pipe") }

// poisonWriterPool: the previous user of the pooled BufferWriter objects hit a write error (its sink failed at
// Flush, every later Write* then returned the underlying writer's sticky error) and recycled its objects. A
// BufferWriter taken from the pool afterwards must behave exactly like a new one (C01: every stream writer emits
// the encoding; C14 proves it for the model as recycled_behaves_as_new). Invisible on code where that holds.
func poisonWriterPool() {
	for i := 0; i < 2; i++ {
		dw := bufiox.NewDefaultWriter(brokenSink{})
		bw := thrift.NewBufferWriter(dw)
		_ = bw.WriteI32(7)
		_ = dw.Flush()
		_ = bw.WriteI32(8)
		_ = bw.WriteFieldStop()
		bw.Recycle()
	}
}

// runSeq: a sequence of messages through ONE reused writer, Flush after each; the flushed chunks.
// setup: d (DefaultWriter over a recording sink) | b<cap> (BytesWriter over a buffer of that capacity)
func runSeq(setup string, vs []Val) string {
	return lib.Guard(func() string {
		var w bufiox.Writer
		sink := &recSink{}
		var target []byte
		isBytes := setup[0] == 'b'
		if isBytes {
			c, _ := strconv.Atoi(setup[1:])
			target = make([]byte, 0, c)
			w = bufiox.NewBytesWriter(&target)
		} else {
			w = bufiox.NewDefaultWriter(sink)
		}
		poisonWriterPool()
		bw := thrift.NewBufferWriter(w)
		out := "ok"
		for _, v := range vs {
			n0 := len(sink.chunks)
			if err := streamWrite(bw, v); err != nil {
				return "err " + lib.ErrStr(err)
			}
			if err := w.Flush(); err != nil {
				return "err " + lib.ErrStr(err)
			}
			if isBytes {
				out += " " + lib.Hex(target)
			} else {
				var all []byte
				for _, c := range sink.chunks[n0:] {
					all = append(all, c...)
				}
				out += " " + lib.Hex(all)
			}
		}
		return out
	})
}

// runMulti: many values through ONE writer and a single Flush at the end; the flushed bytes
func runMulti(setup string, vs []Val) string {
	return lib.Guard(func() string {
		var w bufiox.Writer
		sink := &recSink{}
		var target []byte
		isBytes := setup[0] == 'b'
		if isBytes {
			c, _ := strconv.Atoi(setup[1:])
			target = make([]byte, 0, c)
			w = bufiox.NewBytesWriter(&target)
		} else {
			w = bufiox.NewDefaultWriter(sink)
		}
		poisonWriterPool()
		bw := thrift.NewBufferWriter(w)
		for _, v := range vs {
			if err := streamWrite(bw, v); err != nil {
				return "err " + lib.ErrStr(err)
			}
		}
		if err := w.Flush(); err != nil {
			return "err " + lib.ErrStr(err)
		}
		if isBytes {
			return "ok " + lib.Hex(target)
		}
		var all []byte
		for _, c := range sink.chunks {
			all = append(all, c...)
		}
		return "ok " + lib.Hex(all)
	})
}

func seqFields(op, setup string, vs []Val) []string {
	f := []string{"wire", op, setup}
	for i, v := range vs {
		if i > 0 {
			f = append(f, "/")
		}
		f = append(f, v.Toks()...)
	}
	return f
}

func opMulti(setup string, vs []Val) {
	res := runMulti(setup, vs)
	em.Count("w-multi:" + setup[:1] + ":" + firstTok(res))
	em.Line(res, seqFields("w-multi", setup, vs)...)
}

// genMulti: field+string pairs (and a few scalars) totalling 12–40 KiB before a single Flush, so that the
// writer's buffer grows at least three times within one flush epoch
func genMulti(r *lib.Rng, n int) {
	for i := 0; i < n; i++ {
		total := r.Range(12<<10, 40<<10)
		var vs []Val
		sz := 0
		for sz < total {
			L := r.Pick(r.Range(1000, 4000), r.Range(2500, 3500), r.Range(3000, 6000), r.Intn(200))
			vs = append(vs, Val{K: "field", T: 11, I: int64(len(vs)/2 + 1)})
			vs = append(vs, Val{K: pickS(r, "string", "binary"), S: content(r, L)})
			sz += 7 + L
			if r.Chance(1, 4) {
				vs = append(vs, Val{K: "i64", I: int64(r.U64())})
				sz += 8
			}
		}
		vs = append(vs, Val{K: "stop"})
		em.Count(fmt.Sprintf("w-multi:KiB:%d", sz>>12<<2))
		opMulti("d", vs)
		opMulti(fmt.Sprintf("b%d", r.Pick(0, 16, 100, 4096)), vs)
	}
}

// runTwo: ReadString, Release, ReadString over one stream, then the FIRST string again: a value that
// has been handed out must not change when the reader reuses its buffer
func runTwo(b []byte, src string) string {
	return lib.Guard(func() string {
		rd, under := mkReaderU(b, src)
		r := thrift.NewBufferReader(rd)
		s1, err := r.ReadString()
		if err != nil {
			return "err1 " + wireErrStr(err)
		}
		h1 := lib.Hex([]byte(s1)) // a copy of what was returned, taken now
		rd.Release(nil)
		s2, err := r.ReadString()
		if err != nil {
			return "err2 " + wireErrStr(err)
		}
		h2 := lib.Hex([]byte(s2))
		n := r.Readn()
		// the caller is done with the data: Release, the slice behind a bytes reader reused, the pool's buffers reused
		rd.Release(nil)
		scribble(under, 0x5A)
		coTenant()
		return fmt.Sprintf("ok %s %s %s %d", h1, h2, lib.Hex([]byte(s1)), n)
	})
}

func opTwo(b []byte, src string) {
	if declared("string", b) > allocCap {
		return
	}
	if len(b) >= 4 {
		n := int(binary.BigEndian.Uint32(b))
		if n < len(b)-8 && declared("string", b[4+n:]) > allocCap {
			return
		}
	}
	res := runTwo(b, src)
	em.Count("r-two:" + firstTwo(res))
	em.Line(res, "wire", "r-two", lib.Hex(b), src)
}

func genTwo(r *lib.Rng, n int) {
	for i := 0; i < n; i++ {
		s1 := content(r, r.Pick(1, 5, 16, 40, 200, r.Intn(600)+1))
		s2 := content(r, r.Pick(1, 5, 16, 40, 200, r.Intn(600)+1, len(s1)))
		b := append(refEnc(Val{K: "string", S: s1}), refEnc(Val{K: "string", S: s2})...)
		b = append(b, r.Bytes(r.Pick(0, 0, 3, 40))...)
		// everything arrives in the first read(s), so that Release has unread bytes to move to the front
		opTwo(b, lib.Script{{K: 1 << 20, Err: -1}, {K: 1 << 20, Err: -1}}.String())
		opTwo(b, lib.Script{{K: 1 << 20, Err: 0}}.String())
		opTwo(b, fmt.Sprintf("b%d", len(b)+r.Pick(0, 7)))
		opTwo(b, scriptFor(r, len(b), true).String())
		opTwo(b, scriptFor(r, len(b), false).String())
		if i%4 == 0 {
			cut := r.Intn(len(b))
			opTwo(b[:cut], scriptFor(r, cut, i%8 == 0).String())
		}
	}
}

// runRecycle: a pooled BufferReader is used once (ReadString on b1), recycled, and a BufferReader obtained again
// (sync.Pool hands the same object back) reads a message header and a string from b2. The second use must behave
// like a fresh reader — exact values and exact Readn — and the string handed out by the first use must not change.
func runRecycle(b1, b2 []byte, src2 string) string {
	return lib.Guard(func() string {
		in1 := append([]byte(nil), b1...)
		r := thrift.NewBufferReader(bufiox.NewBytesReader(in1))
		s1, err := r.ReadString()
		if err != nil {
			return "err1 " + wireErrStr(err)
		}
		h1 := lib.Hex([]byte(s1)) // a copy of what was returned, taken now
		r.Recycle()
		scribble(in1, 0x5A) // the first use is over: its input buffer is reused
		rd2 := mkReader(b2, src2)
		r2 := thrift.NewBufferReader(rd2)
		name, typ, seq, err := r2.ReadMessageBegin()
		if err != nil {
			return "err2 " + wireErrStr(err)
		}
		n1 := r2.Readn()
		s2, err := r2.ReadString()
		if err != nil {
			return "err3 " + wireErrStr(err)
		}
		h2 := lib.Hex([]byte(s2))
		res := fmt.Sprintf("ok %s %s %d %d %d %s %d %s", h1, lib.Hex([]byte(name)), typ, seq, n1, h2, r2.Readn(), lib.Hex([]byte(s1)))
		r2.Recycle()
		return res
	})
}

func opRecycle(b1, b2 []byte, src2 string) {
	if declared("string", b1) > allocCap || len(b2) > 1<<16 {
		return
	}
	res := runRecycle(b1, b2, src2)
	em.Count("r-recycle:" + firstTok(res))
	em.Line(res, "wire", "r-recycle", lib.Hex(b1), lib.Hex(b2), src2)
}

func genRecycle(r *lib.Rng, n int) {
	for i := 0; i < n; i++ {
		s1 := content(r, r.Pick(1, 5, 16, 40, 200, r.Intn(300)+1))
		b1 := append(refEnc(Val{K: "string", S: s1}), r.Bytes(r.Pick(0, 3))...)
		name := content(r, r.Pick(1, 4, 7, 16, len(s1)))
		s2 := content(r, r.Pick(1, 5, len(s1), 40, 250))
		b2 := append(refEnc(Val{K: "msg", S: name, MsgTyp: int32(r.Pick(1, 2, 3, 4)), I: int64(int32(r.U64()))}), refEnc(Val{K: "string", S: s2})...)
		b2 = append(b2, r.Bytes(r.Pick(0, 2))...)
		opRecycle(b1, b2, fmt.Sprintf("b%d", len(b2)+r.Pick(0, 5)))
		opRecycle(b1, b2, scriptFor(r, len(b2), true).String())
	}
}

func opSeq(setup string, vs []Val) {
	f := []string{"wire", "w-seq", setup}
	for i, v := range vs {
		if i > 0 {
			f = append(f, "/")
		}
		f = append(f, v.Toks()...)
	}
	res := runSeq(setup, vs)
	em.Count("w-seq:" + setup[:1] + ":" + firstTok(res))
	em.Line(res, f...)
}

// genSeqs: k = 2..4 messages through one reused writer, at least one long enough to make the buffer grow
func genSeqs(r *lib.Rng, n int, msgOnly bool) {
	small := func() Val {
		if msgOnly {
			return Val{K: "msg", S: content(r, r.Intn(12)), MsgTyp: int32(r.Intn(5)), I: int64(int32(r.U64()))}
		}
		switch r.Intn(6) {
		case 0:
			return Val{K: "i32", I: int64(int32(r.U64()))}
		case 1:
			return Val{K: "i64", I: int64(r.U64())}
		case 2:
			return Val{K: "field", T: r.Pick(2, 8, 11, 12), I: int64(int16(r.U64()))}
		case 3:
			return Val{K: "map", T: 11, T2: 8, N: r.Intn(1 << 20)}
		case 4:
			return Val{K: "msg", S: content(r, r.Intn(12)), MsgTyp: int32(r.Intn(5)), I: int64(int32(r.U64()))}
		default:
			return Val{K: pickS(r, "string", "binary"), S: content(r, r.Intn(40))}
		}
	}
	long := func() Val {
		L := r.Pick(4090, 4093, 4096, 4097, 4100, r.Range(4090, 9000), r.Range(4090, 9000), 8192, 9000)
		if msgOnly {
			return Val{K: "msg", S: content(r, L), MsgTyp: int32(r.Intn(5)), I: int64(int32(r.U64()))}
		}
		return Val{K: pickS(r, "string", "binary"), S: content(r, L)}
	}
	for i := 0; i < n; i++ {
		k := r.Range(2, 4)
		at := r.Pick(0, 0, 0, r.Intn(k)) // mostly first: growth, Flush, then the next message
		vs := make([]Val, k)
		for j := range vs {
			if j == at || r.Chance(1, 6) {
				vs[j] = long()
			} else {
				vs[j] = small()
			}
		}
		opSeq("d", vs)
		opSeq(fmt.Sprintf("b%d", r.Pick(0, 16, 4096, 8192, 100)), vs)
	}
}

func fieldToks(t thrift.TType, id int16) string {
	if t == thrift.STOP {
		return "stop"
	}
	return fmt.Sprintf("field %d %d", uint8(t), id)
}

func boolTok(b bool) string {
	if b {
		return "bool 1"
	}
	return "bool 0"
}

// bufReadOne: one Binary.Read<kind>(b) call; the returned function renders the value from the Go values that were
// returned (see streamReadOne). nil: unknown kind.
func bufReadOne(kind string, b []byte) (func() string, int, error) {
	p := thrift.Binary
	switch kind {
	case "bool":
		v, l, err := p.ReadBool(b)
		return func() string { return boolTok(v) }, l, err
	case "i8":
		v, l, err := p.ReadByte(b)
		return func() string { return fmt.Sprintf("i8 %d", v) }, l, err
	case "i16":
		v, l, err := p.ReadI16(b)
		return func() string { return fmt.Sprintf("i16 %d", v) }, l, err
	case "i32":
		v, l, err := p.ReadI32(b)
		return func() string { return fmt.Sprintf("i32 %d", v) }, l, err
	case "i64":
		v, l, err := p.ReadI64(b)
		return func() string { return fmt.Sprintf("i64 %d", v) }, l, err
	case "double":
		v, l, err := p.ReadDouble(b)
		return func() string { return fmt.Sprintf("double %d", math.Float64bits(v)) }, l, err
	case "binary":
		v, l, err := p.ReadBinary(b)
		return func() string { return "binary " + lib.Hex(v) }, l, err
	case "string":
		v, l, err := p.ReadString(b)
		return func() string { return "string " + lib.Hex([]byte(v)) }, l, err
	case "field":
		t, id, l, err := p.ReadFieldBegin(b)
		return func() string { return fieldToks(t, id) }, l, err
	case "map":
		kt, vt, n, l, err := p.ReadMapBegin(b)
		return func() string { return fmt.Sprintf("map %d %d %d", uint8(kt), uint8(vt), n) }, l, err
	case "list":
		et, n, l, err := p.ReadListBegin(b)
		return func() string { return fmt.Sprintf("list %d %d", uint8(et), n) }, l, err
	case "set":
		et, n, l, err := p.ReadSetBegin(b)
		return func() string { return fmt.Sprintf("set %d %d", uint8(et), n) }, l, err
	case "msg":
		name, t, seq, l, err := p.ReadMessageBegin(b)
		return func() string { return fmt.Sprintf("msg %s %d %d", lib.Hex([]byte(name)), t, seq) }, l, err
	}
	return nil, 0, nil
}

func bufResStr(render func() string, l int, err error) string {
	if err != nil {
		return fmt.Sprintf("err %s %d", lib.ErrStr(err), l)
	}
	return fmt.Sprintf("ok %s %d", render(), l)
}

func runReadBuf(kind string, in []byte) string {
	return lib.Guard(func() string {
		b := append(make([]byte, 0, len(in)), in...)
		render, l, err := bufReadOne(kind, b)
		if render == nil {
			return "bad-kind"
		}
		return bufResStr(render, l, err)
	})
}

// runReadBufLate: Binary.Read<kind> on the caller's buffer, the result rendered at once; then the caller reuses its
// buffer (every byte overwritten, spare capacity included) and the result is rendered again from the Go values it
// still holds. Decoded values are independent copies (C16), with the span cache off (span=false) and on.
//
//	=> <r-buf result> late <r-buf result>
func runReadBufLate(span bool, kind string, in []byte) string {
	return lib.Guard(func() string {
		if span {
			thrift.SetSpanCache(true)
			defer thrift.SetSpanCache(false)
		}
		b := append(make([]byte, 0, len(in)+3), in...)
		render, l, err := bufReadOne(kind, b)
		if render == nil {
			return "bad-kind"
		}
		early := bufResStr(render, l, err)
		scribble(b[:cap(b)], 0x5A)
		return early + " late " + bufResStr(render, l, err)
	})
}

func spanTok(span bool) string {
	if span {
		return "s1"
	}
	return "s0"
}

func opReadBufLate(span bool, kind string, b []byte) {
	res := runReadBufLate(span, kind, b)
	em.Count("r-buf-late:" + spanTok(span) + ":" + kind + ":" + firstTok(res))
	em.Line(res, "wire", "r-buf-late", spanTok(span), kind, lib.Hex(b))
}

// runUnmarshalLate: UnmarshalFastMsg, rendered at once; the receive buffer is overwritten; rendered again (method name,
// the text of a returned ApplicationException, the text decoded into the caller's struct)
func runUnmarshalLate(span bool, in []byte) string {
	return lib.Guard(func() string {
		if span {
			thrift.SetSpanCache(true)
			defer thrift.SetSpanCache(false)
		}
		b := append(make([]byte, 0, len(in)+3), in...)
		render := unmarshalRender(b)
		early := render()
		scribble(b[:cap(b)], 0x5A)
		return early + " late " + render()
	})
}

func opUnmarshalLate(span bool, b []byte) {
	res := runUnmarshalLate(span, b)
	em.Count("unmarshal-late:" + spanTok(span) + ":" + firstTok(res))
	em.Line(res, "msg", "unmarshal-late", spanTok(span), lib.Hex(b))
}

// genBufLate: every buffer reader whose result carries pointer content (string, binary, message name; scalars and
// headers now and then), value lengths across the allocator's size classes, trailing bytes, cut inputs; whole
// messages (CALL/REPLY/EXCEPTION/ONEWAY with an exception payload) through UnmarshalFastMsg
func genBufLate(r *lib.Rng, n int) {
	lens := []int{0, 1, 5, 60, 127, 128, 129, 255, 256, 1000, 4096, 70000}
	for i := 0; i < n; i++ {
		L := lens[i%len(lens)]
		if i >= 3*len(lens) {
			L = r.Pick(r.Intn(8), r.Intn(64), r.Intn(600), r.Intn(5000))
		}
		k := []string{"string", "binary", "msg"}[(i/len(lens))%3]
		v := Val{K: k, S: content(r, L), MsgTyp: int32(r.Pick(1, 2, 3, 4)), I: int64(int32(r.U64()))}
		in := append(refEnc(v), r.Bytes(r.Pick(0, 0, 1, 9))...)
		span := i%4 == 3
		opReadBufLate(span, k, in)
		if i%5 == 0 {
			opReadBufLate(span, k, in[:r.Intn(len(in))])
			sc := Val{K: pickS(r, "i32", "i64", "double", "field", "map", "list"), T: 11, T2: 8, I: int64(int16(r.U64())), U: r.U64(), N: r.Intn(1 << 20)}
			opReadBufLate(span, sc.K, refEnc(sc))
		}
		m := content(r, r.Pick(1, 4, 16, 40, 300, L%5000+1))
		ex := thrift.NewApplicationException(int32(r.Intn(12)), string(content(r, r.Pick(0, 1, 12, 200, L%5000))))
		msg, err := thrift.MarshalFastMsg(string(m), thrift.TMessageType(r.Pick(1, 2, 3, 3, 4)), int32(r.U64()), ex)
		if err == nil {
			opUnmarshalLate(span, msg)
			if i%5 == 0 {
				opUnmarshalLate(span, msg[:r.Intn(len(msg))])
			}
		}
	}
}

// errWrapPE: injected source error number 9 — a transport error that WRAPS a protocol exception
// (fmt.Errorf("…: %w", pe)). The stream reader must hand it on so that errors.Is(err, errWrapPE) holds.
var errWrapPE = fmt.Errorf("read tcp: %w", thrift.NewProtocolException(thrift.INVALID_DATA, "inner"))

func wireInjErr(k int) error {
	if k == 9 {
		return errWrapPE
	}
	return lib.InjErr(k)
}

// wireSource: lib.Source with the family's own error class 9
type wireSource struct {
	Stream []byte
	Script lib.Script
	Pos    int
}

func (s *wireSource) Read(p []byte) (int, error) {
	if len(s.Script) == 0 {
		return 0, wireInjErr(0)
	}
	r := s.Script[0]
	s.Script = s.Script[1:]
	k := r.K
	if k > len(p) {
		k = len(p)
	}
	if k > len(s.Stream)-s.Pos {
		k = len(s.Stream) - s.Pos
	}
	copy(p, s.Stream[s.Pos:s.Pos+k])
	s.Pos += k
	if r.Err >= 0 {
		return k, wireInjErr(r.Err)
	}
	return k, nil
}

// wireErrStr: lib.ErrStr, except that an error through which errors.Is finds source error 9 prints it
// as `src9` (so the line shows whether the source's error is still matchable)
func wireErrStr(err error) string {
	if err != nil && errors.Is(err, errWrapPE) {
		if pe, ok := err.(*thrift.ProtocolException); ok {
			return fmt.Sprintf("pe%d(src9)", pe.TypeId())
		}
		return "src9"
	}
	return lib.ErrStr(err)
}

func mkReader(b []byte, src string) bufiox.Reader {
	rd, _ := mkReaderU(b, src)
	return rd
}

// mkReaderU: the reader and, for a bytes reader, the caller's slice behind it (full capacity) — the memory its owner
// may reuse once the data has been decoded
func mkReaderU(b []byte, src string) (bufiox.Reader, []byte) {
	if src[0] == 'b' {
		c, _ := strconv.Atoi(src[1:])
		if c < len(b) {
			c = len(b)
		}
		buf := make([]byte, len(b), c)
		copy(buf, b)
		return bufiox.NewBytesReader(buf), buf[:c]
	}
	return bufiox.NewDefaultReader(&wireSource{Stream: b, Script: lib.ParseScript(src)}), nil
}

func scribble(b []byte, x byte) {
	for i := range b {
		b[i] = x
	}
}

// coTenant: another user of the shared buffer pool (mcache) takes buffers of every size class a stream reader's
// buffer can come from, overwrites them completely and gives them back. A buffer the reader has released is
// overwritten that way; memory the reader (or a value it handed out) still owns is never touched on correct code.
func coTenant() {
	var held [][]byte
	for i := 6; i <= 17; i++ {
		for k := 0; k < 2; k++ {
			b := mcache.Malloc(1 << uint(i))
			scribble(b[:cap(b)], 0xDE)
			held = append(held, b)
		}
	}
	for _, b := range held {
		mcache.Free(b)
	}
}

// streamReadOne: one BufferReader.Read<kind>() call. The returned function renders the value FROM THE GO VALUES
// THAT WERE RETURNED (string, []byte and the message name keep their pointer content), so calling it later shows
// what the caller holds then. nil: unknown kind.
func streamReadOne(r *thrift.BufferReader, kind string) (func() string, error) {
	switch kind {
	case "bool":
		v, err := r.ReadBool()
		return func() string { return boolTok(v) }, err
	case "i8":
		v, err := r.ReadByte()
		return func() string { return fmt.Sprintf("i8 %d", v) }, err
	case "i16":
		v, err := r.ReadI16()
		return func() string { return fmt.Sprintf("i16 %d", v) }, err
	case "i32":
		v, err := r.ReadI32()
		return func() string { return fmt.Sprintf("i32 %d", v) }, err
	case "i64":
		v, err := r.ReadI64()
		return func() string { return fmt.Sprintf("i64 %d", v) }, err
	case "double":
		v, err := r.ReadDouble()
		return func() string { return fmt.Sprintf("double %d", math.Float64bits(v)) }, err
	case "binary":
		v, err := r.ReadBinary()
		return func() string { return "binary " + lib.Hex(v) }, err
	case "string":
		v, err := r.ReadString()
		return func() string { return "string " + lib.Hex([]byte(v)) }, err
	case "field":
		t, id, err := r.ReadFieldBegin()
		return func() string { return fieldToks(t, id) }, err
	case "map":
		kt, vt, n, err := r.ReadMapBegin()
		return func() string { return fmt.Sprintf("map %d %d %d", uint8(kt), uint8(vt), n) }, err
	case "list":
		et, n, err := r.ReadListBegin()
		return func() string { return fmt.Sprintf("list %d %d", uint8(et), n) }, err
	case "set":
		et, n, err := r.ReadSetBegin()
		return func() string { return fmt.Sprintf("set %d %d", uint8(et), n) }, err
	case "msg":
		name, t, seq, err := r.ReadMessageBegin()
		return func() string { return fmt.Sprintf("msg %s %d %d", lib.Hex([]byte(name)), t, seq) }, err
	}
	return nil, nil
}

func runReadStream(kind string, b []byte, src string) string {
	return lib.Guard(func() string {
		r := thrift.NewBufferReader(mkReader(b, src))
		render, err := streamReadOne(r, kind)
		if render == nil {
			return "bad-kind"
		}
		if err != nil {
			return "err " + wireErrStr(err)
		}
		return fmt.Sprintf("ok %s %d", render(), r.Readn())
	})
}

// runHist: a history on ONE stream reader: Read<kind> for every kind of the list; after read i, when mask[i] is '1',
// the reader is Released (what has been decoded so far is done with), the owner of a bytes reader's slice overwrites
// the consumed part and a co-tenant of the buffer pool overwrites whatever the reader gave back. At the end: Release,
// the whole input overwritten, co-tenant again. Every value is rendered when it is returned (`early`) and once more
// at the very end from the Go values the caller still holds (`late`): values handed out are independent copies (C16),
// so on correct code both lists are equal.
//
//	=> ok <Readn before the last Release> <v1> / <v2> … late <v1> / <v2> … | err<i> <e> (read i failed, 1-based)
func runHist(kinds []string, mask string, b []byte, src string) string {
	return lib.Guard(func() string {
		if len(mask) != len(kinds) {
			return "bad-mask"
		}
		rd, under := mkReaderU(b, src)
		r := thrift.NewBufferReader(rd)
		var early []string
		var renders []func() string
		consumed := 0
		for i, k := range kinds {
			render, err := streamReadOne(r, k)
			if render == nil {
				return "bad-kind"
			}
			if err != nil {
				return fmt.Sprintf("err%d %s", i+1, wireErrStr(err))
			}
			early = append(early, render())
			renders = append(renders, render)
			if mask[i] == '1' {
				consumed += int(r.Readn())
				rd.Release(nil)
				if consumed <= len(under) {
					scribble(under[:consumed], 0x5A)
				}
				coTenant()
			}
		}
		n := r.Readn()
		rd.Release(nil)
		scribble(under, 0x5A)
		coTenant()
		late := make([]string, len(renders))
		for i, f := range renders {
			late[i] = f()
		}
		return fmt.Sprintf("ok %d %s late %s", n, strings.Join(early, " / "), strings.Join(late, " / "))
	})
}

// histAllocOK: hostile declared sizes never reach the allocating readers (also on replayed / shrunk lines)
func histAllocOK(kinds []string, b []byte) bool {
	off := 0
	for _, k := range kinds {
		if off > len(b) {
			break
		}
		if declared(k, b[off:]) > allocCap {
			return false
		}
		off += encLenAt(k, b[off:])
	}
	return true
}

func opHist(kinds []string, mask string, b []byte, src string) {
	if !histAllocOK(kinds, b) {
		em.Count("guard:alloc-capped")
		return
	}
	res := runHist(kinds, mask, b, src)
	em.Count("r-hist:" + firstTok(res))
	em.Line(res, "wire", "r-hist", strings.Join(kinds, ","), mask, lib.Hex(b), src)
}

// encLenAt: the length of the encoding of kind k that starts b (harness arithmetic for the allocation guard only)
func encLenAt(k string, b []byte) int {
	u32 := func(off int) int {
		if len(b) < off+4 {
			return 0
		}
		n := binary.BigEndian.Uint32(b[off:])
		if n >= 1<<31 {
			return 0
		}
		return int(n)
	}
	switch k {
	case "bool", "i8":
		return 1
	case "i16":
		return 2
	case "i32":
		return 4
	case "i64", "double":
		return 8
	case "binary", "string":
		return 4 + u32(0)
	case "field":
		if len(b) > 0 && b[0] == 0 {
			return 1
		}
		return 3
	case "map":
		return 6
	case "list", "set":
		return 5
	case "msg":
		return 12 + u32(4)
	}
	return 0
}

// histMsg: one well-formed message of a pipelined stream: header, fields with pointer-carrying and scalar values, stop
func histMsg(r *lib.Rng, nameLen int) (kinds []string, b []byte) {
	add := func(v Val) {
		kinds = append(kinds, v.ReadKind())
		b = append(b, refEnc(v)...)
	}
	add(Val{K: "msg", S: content(r, nameLen), MsgTyp: int32(r.Pick(1, 2, 3, 4)), I: int64(int32(r.U64()))})
	for f := r.Pick(0, 1, 1, 2, 3); f > 0; f-- {
		switch r.Intn(5) {
		case 0:
			add(Val{K: "field", T: 8, I: int64(r.Range(1, 300))})
			add(Val{K: "i32", I: int64(int32(r.U64()))})
		case 1:
			add(Val{K: "field", T: 10, I: int64(r.Range(1, 300))})
			add(Val{K: "i64", I: int64(r.U64())})
		default:
			add(Val{K: "field", T: 11, I: int64(r.Range(1, 300))})
			add(Val{K: pickS(r, "string", "binary"), S: content(r, r.Pick(0, 1, 5, 16, 40, 200, r.Intn(600), len(b)))})
		}
	}
	add(Val{K: "stop"})
	return
}

// genHist: 1–3 pipelined messages on one stream reader. Release after every message (a server loop), after every
// read, at random places, or only at the end; sources: everything buffered by the first read (so that Release
// compacts the following message over the consumed one), a bytes reader (its slice is overwritten afterwards),
// benign and hostile fragmentations; now and then a name long enough to make the reader's buffer grow, and cut streams.
func genHist(r *lib.Rng, n int) {
	for i := 0; i < n; i++ {
		var kinds []string
		var b []byte
		var ends []int
		for m := r.Pick(1, 2, 2, 3); m > 0; m-- {
			nameLen := r.Pick(1, 4, 7, 12, 16, 40, 200, r.Intn(600)+1)
			if r.Chance(1, 25) {
				nameLen = r.Pick(4085, 4096, 5000, 8180, 9000)
			}
			ks, mb := histMsg(r, nameLen)
			kinds, b = append(kinds, ks...), append(b, mb...)
			ends = append(ends, len(kinds)-1)
		}
		b = append(b, r.Bytes(r.Pick(0, 0, 3))...)
		mask := []byte(strings.Repeat("0", len(kinds)))
		switch r.Intn(5) {
		case 0, 1: // after every message
			for _, e := range ends {
				mask[e] = '1'
			}
		case 2: // after every read
			mask = []byte(strings.Repeat("1", len(kinds)))
		case 3:
			for j := range mask {
				if r.Chance(1, 3) {
					mask[j] = '1'
				}
			}
		}
		ms := string(mask)
		opHist(kinds, ms, b, lib.Script{{K: 1 << 20, Err: -1}, {K: 1 << 20, Err: -1}}.String())
		opHist(kinds, ms, b, fmt.Sprintf("b%d", len(b)+r.Pick(0, 0, 7)))
		opHist(kinds, ms, b, scriptFor(r, len(b), true).String())
		if i%2 == 0 {
			opHist(kinds, ms, b, scriptFor(r, len(b), false).String())
		}
		if i%8 == 0 {
			cut := r.Intn(len(b))
			opHist(kinds, ms, b[:cut], pickS(r, fmt.Sprintf("b%d", cut+1), scriptFor(r, cut, true).String()))
		}
		if i%6 == 0 { // single reads of every pointer-carrying kind (and a scalar), then the input is reused
			v := Val{K: pickS(r, "string", "binary", "msg", "msg", "i64"), S: content(r, r.Pick(0, 1, 5, 60, 128, 1000, 4096)), MsgTyp: 1, I: 7}
			in := append(refEnc(v), r.Bytes(r.Pick(0, 2))...)
			opHist([]string{v.K}, pickS(r, "0", "1"), in, fmt.Sprintf("b%d", len(in)+r.Pick(0, 5)))
			opHist([]string{v.K}, pickS(r, "0", "1"), in, scriptFor(r, len(in), true).String())
		}
	}
}

func unmarshalStr(b []byte) string { return unmarshalRender(b)() }

// unmarshalRender: UnmarshalFastMsg(b, tgt); the returned function renders the result from the Go values returned
func unmarshalRender(b []byte) func() string {
	tgt := thrift.NewApplicationException(777, "unt")
	method, seq, err := thrift.UnmarshalFastMsg(b, tgt)
	return func() string {
		tg := fmt.Sprintf("tgt %d %s", tgt.TypeId(), lib.Hex([]byte(tgt.Msg())))
		mh := lib.Hex([]byte(method))
		if err == nil {
			return fmt.Sprintf("ok %s %d %s", mh, seq, tg)
		}
		if ae, ok := err.(*thrift.ApplicationException); ok {
			return fmt.Sprintf("appex %s %d %d %s %s", mh, seq, ae.TypeId(), lib.Hex([]byte(ae.Msg())), tg)
		}
		return fmt.Sprintf("err %s %s %d %s", lib.ErrStr(err), mh, seq, tg)
	}
}

func runMsgRT(method []byte, typ, seq, et int32, emsg []byte) string {
	return lib.Guard(func() string {
		ex := thrift.NewApplicationException(et, string(emsg))
		b, err := thrift.MarshalFastMsg(string(method), thrift.TMessageType(typ), seq, ex)
		if err != nil {
			return "err " + lib.ErrStr(err)
		}
		return "ok " + lib.Hex(b) + " | " + unmarshalStr(b)
	})
}

func runUnmarshal(b []byte) string {
	return lib.Guard(func() string { return unmarshalStr(append(make([]byte, 0, len(b)), b...)) })
}

// ---------------------------------------------------------------- one op line

func fields(pre []string, v Val) []string { return append(append([]string{}, pre...), v.Toks()...) }

func opInplace(n int, v Val) {
	em.Line(runInplace(n, v), fields([]string{"wire", "w-inplace", strconv.Itoa(n)}, v)...)
}
func opAppend(prefix []byte, v Val) {
	em.Line(runAppend(prefix, v), fields([]string{"wire", "w-append", lib.Hex(prefix)}, v)...)
}
func opStreamW(setup string, v Val) {
	res := runStreamWrite(setup, v)
	em.Count("w-stream:" + setup[:1] + ":" + firstTok(res))
	em.Line(res, fields([]string{"wire", "w-stream", setup}, v)...)
}
func opLen(v Val) { em.Line(runLen(v), fields([]string{"wire", "len"}, v)...) }
func opReadBuf(kind string, b []byte) {
	res := runReadBuf(kind, b)
	em.Count("r-buf:" + kind + ":" + firstTwo(res))
	em.Line(res, "wire", "r-buf", kind, lib.Hex(b))
}

// declared allocation of a stream read (ReadBinary/ReadString allocate the declared size)
func declared(kind string, b []byte) int {
	off := -1
	switch kind {
	case "binary", "string":
		off = 0
	case "msg":
		off = 4
	}
	if off < 0 || len(b) < off+4 {
		return 0
	}
	sz := binary.BigEndian.Uint32(b[off:])
	if sz >= 1<<31 {
		return 0 // negative: rejected before allocating
	}
	return int(sz)
}

func opReadStream(kind string, b []byte, src string) {
	if declared(kind, b) > allocCap {
		em.Count("guard:alloc-capped")
		return
	}
	res := runReadStream(kind, b, src)
	em.Count("r-stream:" + kind + ":" + firstTwo(res))
	em.Line(res, "wire", "r-stream", kind, lib.Hex(b), src)
}

func firstTok(s string) string {
	if i := strings.IndexByte(s, ' '); i >= 0 {
		return s[:i]
	}
	return s
}

func firstTwo(s string) string {
	f := strings.Fields(s)
	if len(f) >= 2 && (f[0] == "err" || f[0] == "PANIC") {
		return f[0] + " " + f[1]
	}
	return f[0]
}

func scriptClass(s lib.Script) string {
	hasErr, zeros, mid := false, 0, false
	for i, r := range s {
		if r.Err >= 0 {
			hasErr = true
			if i != len(s)-1 {
				mid = true
			}
		}
		if r.K == 0 {
			zeros++
		}
	}
	c := "plain"
	if hasErr {
		c = "final-err"
	}
	if mid {
		c = "mid-err"
	}
	if zeros > 0 {
		c += "+zeros"
	}
	return c
}

// benignScript: every byte deliverable whatever the room: 1-byte or huge chunks, short zero runs,
// optionally the last byte together with an error.
func benignScript(r *lib.Rng, total int) lib.Script {
	var s lib.Script
	if r.Bool() {
		for i := 0; i < total; i++ {
			if r.Chance(1, 30) {
				for z := r.Pick(1, 2, 99); z > 0; z-- {
					s = append(s, lib.Resp{K: 0, Err: -1})
				}
			}
			s = append(s, lib.Resp{K: 1, Err: -1})
		}
		if total > 0 && r.Bool() {
			s[len(s)-1].Err = r.Pick(0, 0, 2)
		}
		return s
	}
	for i := 0; i < total; i++ {
		s = append(s, lib.Resp{K: 1 << 20, Err: -1})
	}
	return s
}

// scriptFor: a source script for a stream of `total` bytes. The reader model appends every chunk to
// a list, so many tiny reads of a long stream are quadratic in the driver: long streams get chunks
// of at least 512 bytes (beside a fragmented start), short streams every style.
func scriptFor(r *lib.Rng, total int, wantBenign bool) lib.Script {
	if total <= 1500 {
		if wantBenign {
			return benignScript(r, total)
		}
		return lib.GenScript(r, total)
	}
	var s lib.Script
	if wantBenign {
		for i := 0; i < total; i++ {
			s = append(s, lib.Resp{K: 1 << 20, Err: -1})
		}
		return s
	}
	left := total
	push := func(k, e int) {
		if k > left {
			k = left
		}
		left -= k
		s = append(s, lib.Resp{K: k, Err: e})
	}
	for i := r.Intn(9); i > 0 && left > 0; i-- { // the first bytes arrive in fragments
		push(r.Pick(1, 1, 2, 3), -1)
	}
	for left > 0 {
		if r.Chance(1, 10) {
			for z := r.Pick(1, 2, 5, 99); z > 0; z-- {
				s = append(s, lib.Resp{K: 0, Err: -1})
			}
		}
		k := r.Pick(512, 1000, 4095, 4096, 4097, 8192, r.Range(3000, 5000), 1<<20)
		if k < total/64 { // keep the number of reads (each one a list append in the driver) bounded
			k = total / 64
		}
		if k >= left && r.Chance(1, 2) {
			push(k, r.Pick(0, 0, 3)) // final data together with the error
		} else {
			push(k, -1)
		}
	}
	switch r.Intn(6) {
	case 0:
		s = append(s, lib.Resp{K: 0, Err: r.Pick(1, 2, 3)})
	case 1:
		s = s[:r.Intn(len(s))] // the stream ends early
	case 2:
		s[r.Intn(len(s))].Err = r.Pick(0, 1, 2) // an error in the middle
	}
	return s
}

func sizeClass(n int) string {
	switch {
	case n == 0:
		return "0"
	case n < 16:
		return "<16"
	case n < 256:
		return "<256"
	case n < 4090:
		return "<4090"
	case n <= 4100:
		return "4090-4100"
	case n < 8186:
		return "<8186"
	case n <= 8198:
		return "8186-8198"
	default:
		return ">8198"
	}
}

// bundle: one value through every writer, the length function and both readers
type bundleOpts struct {
	cuts    bool // every strict prefix to both readers
	shorts  bool // too-short in-place buffers
	scripts int  // scripted stream reads beside the bytes reader
}

func bundle(r *lib.Rng, class string, v Val, o bundleOpts) {
	enc := refEnc(v)
	L := len(enc)
	em.Count("class:" + class)
	em.Count("kind:" + v.K)
	em.Count("enclen:" + sizeClass(L))
	opLen(v)
	opInplace(L, v)
	opInplace(L+r.Pick(1, 2, 7), v)
	if o.shorts {
		if L <= 14 {
			for n := 0; n < L; n++ {
				opInplace(n, v)
			}
		} else {
			for _, n := range []int{0, 3, 4, 5, 7, 8, 9, 11, 12, L - 5, L - 4, L - 3, L - 1, r.Intn(L)} {
				if n >= 0 && n < L {
					opInplace(n, v)
				}
			}
		}
	}
	opAppend(r.Bytes(r.Pick(0, 0, 1, 5)), v)
	prefix := r.Bytes(r.Pick(0, 0, 0, 2, 9))
	opStreamW("d:"+lib.Hex(prefix), v)
	opStreamW(fmt.Sprintf("b%d:%s", r.Pick(0, L, L+len(prefix), L+len(prefix)+3, 4096, 8192), lib.Hex(prefix)), v)
	if r.Chance(1, 8) {
		opStreamW(fmt.Sprintf("f%d", r.Pick(0, 1, 2, 3)), v)
	}
	k := v.ReadKind()
	in := append(append([]byte{}, enc...), r.Bytes(r.Pick(0, 0, 1, 3))...)
	opReadBuf(k, in)
	c := len(in) + r.Pick(0, 0, 1, 7, 100)
	if c == 0 {
		c = 1
	}
	opReadStream(k, in, "b"+strconv.Itoa(c))
	for i := 0; i < o.scripts; i++ {
		sc := scriptFor(r, len(in), i%2 == 0)
		em.Count("script:" + scriptClass(sc))
		opReadStream(k, in, sc.String())
	}
	if o.scripts > 0 && len(in) > 0 && len(in) <= 1500 {
		// the source fails with a transport error that wraps a protocol exception (error class 9):
		// before all bytes, or together with the last ones
		cut := r.Pick(0, r.Intn(len(in)), len(in)-1, len(in))
		sc := lib.Script{}
		if cut > 1 && r.Bool() {
			sc = append(sc, lib.Resp{K: cut / 2, Err: -1})
			cut -= cut / 2
		}
		sc = append(sc, lib.Resp{K: cut, Err: 9})
		em.Count("script:err9")
		opReadStream(k, in, sc.String())
	}
	if len(in) <= 4096 && len(in) > 0 { // everything in one read, together with an error (the F1 shape)
		sc := lib.Script{}
		for z := r.Pick(0, 0, 1, 50); z > 0; z-- {
			sc = append(sc, lib.Resp{K: 0, Err: -1})
		}
		sc = append(sc, lib.Resp{K: r.Pick(len(in), len(in)+1, 1<<20), Err: r.Pick(0, 0, 2)})
		em.Count("script:all-at-once+err")
		opReadStream(k, in, sc.String())
		// a few small reads first, then the remainder (and more) together with the error
		sc = lib.Script{}
		got := 0
		for i := r.Pick(1, 1, 2, 3); i > 0 && got < len(in); i-- {
			c := r.Pick(1, 2, 3, 4, 4, 4, 5, 8)
			sc = append(sc, lib.Resp{K: c, Err: -1})
			got += c
		}
		sc = append(sc, lib.Resp{K: r.Pick(len(in), 1<<20), Err: r.Pick(0, 0, 1)})
		em.Count("script:split-then-rest+err")
		opReadStream(k, in, sc.String())
	}
	if o.cuts {
		ncut := L
		step := 1
		if L > 40 {
			step = 0 // sampled
			ncut = 12
		}
		for i := 0; i < ncut; i++ {
			cut := i
			if step == 0 {
				cut = r.Pick(0, 1, 3, 4, 5, 7, 8, 9, L-5, L-4, L-3, L-1, r.Intn(L))
				if cut < 0 || cut >= L {
					continue
				}
			}
			em.Count("cut")
			opReadBuf(k, enc[:cut])
			switch i % 3 {
			case 0:
				opReadStream(k, enc[:cut], "b"+strconv.Itoa(cut+1))
			case 1:
				opReadStream(k, enc[:cut], scriptFor(r, cut, true).String())
			default:
				opReadStream(k, enc[:cut], scriptFor(r, cut, false).String())
			}
		}
	}
}

func i64Patterns(bits uint) []int64 {
	var out []int64
	mask := uint64(1)<<bits - 1
	if bits == 64 {
		mask = ^uint64(0)
	}
	sx := func(u uint64) int64 { // sign-extend from `bits`
		u &= mask
		if u>>(bits-1)&1 == 1 {
			return int64(u | ^mask)
		}
		return int64(u)
	}
	add := func(u uint64) { out = append(out, sx(u)) }
	for i := uint(0); i < bits; i++ {
		add(1 << i)      // single bit
		add(^(1 << i))   // single zero bit
		add(1<<i - 1)    // low ones
		add(^(1<<i - 1)) // high ones
	}
	add(0)
	add(mask)
	add(0x0102030405060708) // byte-distinct
	add(0x8182838485868788)
	add(0xf1f2f3f4f5f6f7f8)
	add(0x00ff00ff00ff00ff)
	add(0xff00ff00ff00ff00)
	return out
}

var doubleBits = []uint64{
	0, 0x8000000000000000, // ±0
	0x0000000000000001, 0x000fffffffffffff, 0x8000000000000001, // subnormals
	0x0010000000000000, 0x7fefffffffffffff, // min normal, max
	0x7ff0000000000000, 0xfff0000000000000, // ±inf
	0x7ff8000000000000, 0x7ff8000000000001, 0x7ff0000000000001, 0xfff4000000000000, // quiet / signalling NaN payloads
	0x7fffffffffffffff, 0xffffffffffffffff, 0x7ff00000deadbeef,
	0x3ff0000000000000, 0xbff0000000000000, 0x400921fb54442d18,
	0x0102030405060708, 0x8182838485868788,
}

var typeBoundary = []int{0, 1, 2, 3, 4, 6, 8, 10, 11, 12, 13, 14, 15, 16, 17, 0x7f, 0x80, 0xff}

func strLens(tier string) []int {
	ls := []int{0, 1, 2, 3, 4, 5, 7, 8, 15, 16, 17, 31, 100, 255, 256, 257, 1000, 2047, 2048}
	for n := 4086; n <= 4100; n++ {
		ls = append(ls, n)
	}
	for n := 8182; n <= 8198; n++ {
		ls = append(ls, n)
	}
	ls = append(ls, 12288, 16380, 16384, 16385, 65535, 65536)
	if tier == "thorough" {
		for n := 4060; n < 4140; n++ {
			ls = append(ls, n)
		}
		for n := 8150; n < 8230; n++ {
			ls = append(ls, n)
		}
		ls = append(ls, 32768, 65537, 100000, 1<<20-4, 1<<20)
	}
	return ls
}

func content(r *lib.Rng, n int) []byte {
	switch r.Intn(5) {
	case 0: // ASCII
		b := make([]byte, n)
		for i := range b {
			b[i] = byte(0x20 + r.Intn(0x5f))
		}
		return b
	case 1: // invalid UTF-8 heavy
		b := make([]byte, n)
		for i := range b {
			b[i] = byte(r.Pick(0xff, 0xfe, 0xc0, 0x80, 0xed, 0xa0, 0x00, 0xf8))
		}
		return b
	case 2: // zeros
		return make([]byte, n)
	default:
		return r.Bytes(n)
	}
}

func genC01(o *lib.Opts, r *lib.Rng) {
	thorough := o.Tier == "thorough"
	n := o.N
	if n == 0 {
		n = 150
		if thorough {
			n = 6000
		}
	}
	full := bundleOpts{cuts: true, shorts: true, scripts: 2}
	lite := bundleOpts{scripts: 1}
	// 1. all bool, all i8
	for _, b := range []bool{false, true} {
		bundle(r, "all-bool", Val{K: "bool", B: b}, full)
	}
	for i := -128; i <= 127; i++ {
		bo := lite
		if i%16 == 0 || i == -1 || i == 127 {
			bo = full
		}
		bundle(r, "all-i8", Val{K: "i8", I: int64(i)}, bo)
	}
	// every byte through the bool and i8 readers (non-canonical bools)
	for x := 0; x < 256; x++ {
		opReadBuf("bool", []byte{byte(x)})
		opReadBuf("i8", []byte{byte(x), 0xee})
		if x%8 == 0 {
			opReadStream("bool", []byte{byte(x)}, "1")
		}
	}
	// 2. boundary and single-bit patterns of i16/i32/i64/double, plus random
	for _, w := range []struct {
		k    string
		bits uint
	}{{"i16", 16}, {"i32", 32}, {"i64", 64}} {
		for j, p := range i64Patterns(w.bits) {
			bo := lite
			if j%7 == 0 {
				bo = full
			}
			bundle(r, "pattern-"+w.k, Val{K: w.k, I: p}, bo)
		}
		for i := 0; i < n; i++ {
			u := r.U64()
			if w.bits < 64 {
				u &= 1<<w.bits - 1
				if u>>(w.bits-1)&1 == 1 {
					u |= ^(uint64(1)<<w.bits - 1)
				}
			}
			bundle(r, "random-"+w.k, Val{K: w.k, I: int64(u)}, lite)
		}
	}
	if thorough { // all i16 through the cheap ops
		for i := -32768; i <= 32767; i++ {
			v := Val{K: "i16", I: int64(i)}
			opInplace(2, v)
			opAppend(nil, v)
			opReadBuf("i16", refEnc(v))
		}
	}
	for j, p := range i64Patterns(64) {
		bo := lite
		if j%9 == 0 {
			bo = full
		}
		bundle(r, "pattern-double", Val{K: "double", U: uint64(p)}, bo)
	}
	for _, u := range doubleBits {
		bundle(r, "special-double", Val{K: "double", U: u}, full)
	}
	for i := 0; i < n; i++ {
		u := r.U64()
		if i%3 == 0 { // NaN with a random payload
			u |= 0x7ff0000000000000
		}
		bundle(r, "random-double", Val{K: "double", U: u}, lite)
	}
	// 3. every type byte in every header
	for t := 0; t < 256; t++ {
		bo := lite
		if t < 18 || t == 0x7f || t == 0x80 || t == 0xff {
			bo = full
		}
		id := int64(int16(r.U64()))
		if t%5 == 0 {
			id = int64([]int{0, 1, -1, 32767, -32768, 255, 256, -256}[(t/5)%8])
		}
		bundle(r, "typebyte-field", Val{K: "field", T: t, I: id}, bo)
		bundle(r, "typebyte-list", Val{K: "list", T: t, N: r.Pick(0, 1, 255, 65536, r.Intn(1<<31))}, bo)
		bundle(r, "typebyte-set", Val{K: "set", T: t, N: r.Pick(0, 2, 256, 1<<24, r.Intn(1<<31))}, lite)
		bundle(r, "typebyte-map", Val{K: "map", T: t, T2: typeBoundary[t%len(typeBoundary)], N: r.Intn(1 << 16)}, lite)
		bundle(r, "typebyte-map", Val{K: "map", T: typeBoundary[t%len(typeBoundary)], T2: t, N: r.Intn(1 << 31)}, bo)
	}
	bundle(r, "stop", Val{K: "stop"}, full)
	genSeqs(r, n/2+20, false)
	genMulti(r, n/10+10)
	genTwo(r, n/2+30)
	// field ids: boundaries and single bits
	for _, p := range i64Patterns(16) {
		bundle(r, "field-id", Val{K: "field", T: r.Pick(2, 8, 11, 12, 15), I: p}, lite)
	}
	// 4. container sizes: boundaries (sizes ≥ 2^31 are outside the round-trip claim: model only)
	for _, sz := range []int{0, 1, 2, 127, 128, 255, 256, 65535, 65536, 1<<24 - 1, 1 << 24, 1<<31 - 2, 1<<31 - 1,
		1 << 31, 1<<31 + 1, 1<<32 - 1} {
		bundle(r, "size", Val{K: "map", T: 11, T2: 8, N: sz}, full)
		bundle(r, "size", Val{K: "list", T: 12, N: sz}, lite)
		bundle(r, "size", Val{K: "set", T: 10, N: sz}, lite)
	}
	for i := uint(0); i < 32; i++ {
		bundle(r, "size-bit", Val{K: "list", T: 8, N: 1 << i}, lite)
		bundle(r, "size-bit", Val{K: "map", T: 3, T2: 3, N: 1<<i - 1}, lite)
	}
	// 5. strings and binaries: every length class, arbitrary content
	for i, L := range strLens(o.Tier) {
		k := "string"
		if i%2 == 1 {
			k = "binary"
		}
		bo := bundleOpts{shorts: true, cuts: true, scripts: 2}
		if L > 20000 {
			bo = bundleOpts{shorts: true, scripts: 1}
		}
		bundle(r, "strlen", Val{K: k, S: content(r, L)}, bo)
		if L <= 300 {
			k2 := "binary"
			if k == "binary" {
				k2 = "string"
			}
			bundle(r, "strlen", Val{K: k2, S: content(r, L)}, bo)
		}
	}
	for i := 0; i < n; i++ {
		L := r.Pick(r.Intn(8), r.Intn(64), r.Intn(600), r.Intn(5000))
		bundle(r, "random-str", Val{K: pickS(r, "string", "binary"), S: content(r, L)}, lite)
	}
	// 6. hostile length prefixes on the readers
	for _, sz := range []uint32{0x7fffffff, 0x80000000, 0xffffffff, 0x00100001, 0x7ffffff0, 0x00100000, 5, 0xfffffffb} {
		b := binary.BigEndian.AppendUint32(nil, sz)
		b = append(b, r.Bytes(r.Intn(9))...)
		for _, k := range []string{"string", "binary"} {
			opReadBuf(k, b)
			opReadStream(k, b, "b"+strconv.Itoa(len(b)))
			opReadStream(k, b, benignScript(r, len(b)).String())
			opReadStream(k, b, lib.GenScript(r, len(b)).String())
		}
	}
	// 6b. declared lengths within 16 of MaxInt32 (an int32 sum `4+sz` / `12+sz` wraps there), every tail length
	for _, sz := range []uint32{0x7fffffef, 0x7ffffff3, 0x7ffffff4, 0x7ffffff7, 0x7ffffff8, 0x7ffffffb, 0x7ffffffc, 0x7ffffffe} {
		for _, tail := range []int{0, 3, 4, 8, 12, 16} {
			b := append(binary.BigEndian.AppendUint32(nil, sz), r.Bytes(tail)...)
			em.Count("hostile-len-near-maxint32")
			for _, k := range []string{"string", "binary"} {
				opReadBuf(k, b)
			}
		}
	}
	// 7. bounded-exhaustive short inputs over a boundary alphabet, every reader
	alpha := []byte{0x00, 0x01, 0x02, 0x0b, 0x7f, 0x80, 0xff}
	maxLen := 3
	if thorough {
		maxLen = 5
	}
	kinds := []string{"bool", "i8", "i16", "i32", "i64", "double", "binary", "string", "field", "map", "list", "set"}
	var rec func(cur []byte)
	rec = func(cur []byte) {
		for _, k := range kinds {
			opReadBuf(k, cur)
		}
		if len(cur) <= 2 {
			for _, k := range kinds {
				opReadStream(k, cur, pickS(r, "b"+strconv.Itoa(len(cur)+1), benignScript(r, len(cur)).String(),
					lib.GenScript(r, len(cur)).String()))
			}
		}
		if len(cur) == maxLen {
			return
		}
		for _, a := range alpha {
			rec(append(append([]byte(nil), cur...), a))
		}
	}
	rec(nil)
	// 8. random bytes into every reader
	for i := 0; i < n*2; i++ {
		b := r.Bytes(r.Pick(r.Intn(4), r.Intn(10), r.Intn(20)))
		if r.Chance(1, 2) && len(b) >= 4 { // plausible small length prefix
			b[0], b[1], b[2] = 0, 0, 0
			b[3] = byte(r.Intn(24))
		}
		k := kinds[r.Intn(len(kinds))]
		opReadBuf(k, b)
		opReadStream(k, b, pickS(r, "b"+strconv.Itoa(len(b)+1), lib.GenScript(r, len(b)).String()))
	}
}

func firstWords() []uint32 {
	ws := []uint32{0x80010000, 0x80010001, 0x80010002, 0x80010003, 0x80010004, 0x8001ffff, 0x80017fff, 0x80018000,
		0x80000000, 0x80000001, 0x80020000, 0x80020001, 0x00010000, 0x00010001, 0, 1, 0xffffffff, 0xffff0000, 0x7fff0000,
		0x80110000, 0x81010000, 0xc0010000, 0x80010100, 0x00000001, 0x00000004, 0x01000180}
	for i := uint(0); i < 32; i++ {
		ws = append(ws, 0x80010001^(1<<i)) // every single-bit corruption of a valid first word
	}
	return ws
}

func msgNames(r *lib.Rng, tier string) [][]byte {
	ns := [][]byte{nil, []byte("a"), []byte("Echo"), []byte("ping"), {0xff}, {0x00}, {0x00, 0x00}, []byte("méthode"),
		content(r, 17), content(r, 255), content(r, 256), content(r, 1000), content(r, 4082), content(r, 4084),
		content(r, 4085), content(r, 4096), content(r, 8180), content(r, 9000)}
	if tier == "thorough" {
		ns = append(ns, content(r, 65536), content(r, 70000))
	}
	return ns
}

func genC12(o *lib.Opts, r *lib.Rng) {
	thorough := o.Tier == "thorough"
	n := o.N
	if n == 0 {
		n = 200
		if thorough {
			n = 8000
		}
	}
	full := bundleOpts{cuts: true, shorts: true, scripts: 2}
	lite := bundleOpts{scripts: 1}
	seqs := []int64{0, 1, -1, 2147483647, -2147483648, 255, 256, 0x01020304, -0x01020304}
	types := []int32{0, 1, 2, 3, 4, 5, 255, 256, 32767, 32768, 65535, 65536, 65537, 0x30002, 0x7fffffff, -1, -2,
		-2147483648, -65536, -65535}
	// 1. header bundles: names × types × seqs
	for i, nm := range msgNames(r, o.Tier) {
		bo := full
		if len(nm) > 5000 {
			bo = bundleOpts{shorts: true, scripts: 1}
		}
		bundle(r, "msg-name", Val{K: "msg", S: nm, MsgTyp: types[i%5], I: seqs[i%len(seqs)]}, bo)
	}
	for _, t := range types {
		bundle(r, "msg-type", Val{K: "msg", S: []byte("m"), MsgTyp: t, I: pickI64(r, seqs)}, full)
	}
	step := 257
	if thorough {
		step = 1
	}
	for t := 0; t < 65536; t += step { // message types 0..65535
		v := Val{K: "msg", S: []byte("t"), MsgTyp: int32(t), I: int64(t)}
		if thorough {
			opAppend(nil, v)
			opReadBuf("msg", refEnc(v))
		} else {
			bundle(r, "msg-type-sweep", v, lite)
		}
	}
	for _, s := range seqs {
		bundle(r, "msg-seq", Val{K: "msg", S: []byte("sq"), MsgTyp: 1, I: s}, full)
	}
	for _, p := range i64Patterns(32) {
		bundle(r, "msg-seq-bits", Val{K: "msg", S: []byte("q"), MsgTyp: 2, I: p}, lite)
	}
	for i := 0; i < n; i++ {
		nm := content(r, r.Pick(0, 1, r.Intn(12), r.Intn(80), r.Intn(600)))
		bundle(r, "msg-random", Val{K: "msg", S: nm, MsgTyp: int32(r.U64()), I: int64(int32(r.U64()))}, lite)
	}
	genSeqs(r, n/8+10, true)
	genRecycle(r, n/10+40)
	// 2. every first-word class on both readers, with a well-formed rest and with nothing after it
	for _, w := range firstWords() {
		rest := refEnc(Val{K: "msg", S: []byte("vv"), MsgTyp: 0, I: 9})[4:]
		for _, tail := range [][]byte{rest, nil, rest[:3], rest[:len(rest)-1]} {
			b := append(binary.BigEndian.AppendUint32(nil, w), tail...)
			em.Count(fmt.Sprintf("firstword:%04x", w>>16))
			opReadBuf("msg", b)
			opReadStream("msg", b, "b"+strconv.Itoa(len(b)))
			opReadStream("msg", b, benignScript(r, len(b)).String())
		}
	}
	// buffers of every length 0..12 around good and bad first words (the header guard and the version check)
	for _, w := range []uint32{0x80010001, 0x80010000, 0x80020001, 0x00010001, 0, 0xffffffff, 0x80000001, 0x7fff0000, 0x8001ffff} {
		full := append(binary.BigEndian.AppendUint32(nil, w), refEnc(Val{K: "msg", S: []byte("abcd"), MsgTyp: 0, I: 5})[4:]...)
		full = append(full, 0xee, 0xee)
		for L := 0; L <= 12 && L <= len(full); L++ {
			b := full[:L]
			em.Count("msg-len0-12")
			opReadBuf("msg", b)
			opReadStream("msg", b, "b"+strconv.Itoa(L+1))
			opReadStream("msg", b, scriptFor(r, L, true).String())
			em.Line(runUnmarshal(b), "msg", "unmarshal", lib.Hex(b))
		}
	}
	// negative and hostile name lengths
	for _, sz := range []uint32{0x80000000, 0xffffffff, 0x7fffffff, 0x00100001, 0x00100000, 3} {
		b := binary.BigEndian.AppendUint32([]byte{0x80, 0x01, 0, 1}, sz)
		b = append(b, r.Bytes(r.Intn(10))...)
		opReadBuf("msg", b)
		opReadStream("msg", b, "b"+strconv.Itoa(len(b)))
		opReadStream("msg", b, lib.GenScript(r, len(b)).String())
		em.Line(runUnmarshal(b), "msg", "unmarshal", lib.Hex(b))
	}
	// name lengths within 16 of MaxInt32 (an int32 sum such as `12+sz` wraps there), every tail length
	for _, sz := range []uint32{0x7fffffef, 0x7ffffff3, 0x7ffffff4, 0x7ffffff7, 0x7ffffff8, 0x7ffffffb, 0x7ffffffc, 0x7ffffffe, 0x7fffffff} {
		for _, tail := range []int{0, 3, 4, 8, 12, 16} {
			b := binary.BigEndian.AppendUint32([]byte{0x80, 0x01, 0, 1}, sz)
			b = append(b, r.Bytes(tail)...)
			em.Count("msg-name-len-near-maxint32")
			opReadBuf("msg", b)
			em.Line(runUnmarshal(b), "msg", "unmarshal", lib.Hex(b))
		}
	}
	// bounded-exhaustive short inputs
	alpha := []byte{0x00, 0x01, 0x03, 0x80, 0xff}
	maxLen := 4
	if thorough {
		maxLen = 6
	}
	var rec func(cur []byte)
	rec = func(cur []byte) {
		opReadBuf("msg", cur)
		if len(cur) <= 2 || r.Chance(1, 6) {
			opReadStream("msg", cur, pickS(r, "b"+strconv.Itoa(len(cur)+1), lib.GenScript(r, len(cur)).String()))
		}
		if len(cur) == maxLen {
			return
		}
		for _, a := range alpha {
			rec(append(append([]byte(nil), cur...), a))
		}
	}
	rec(nil)
	// 3. marshal → unmarshal
	methods := [][]byte{nil, []byte("a"), []byte("Echo"), {0xff, 0x00}, content(r, 40), content(r, 300), content(r, 5000)}
	rt := func(m []byte, t, s, et int32, emsg []byte) {
		res := runMsgRT(m, t, s, et, emsg)
		em.Count("rt:" + firstTok(res) + ":" + strconv.Itoa(int(uint32(t)&0xffff)))
		em.Line(res, "msg", "rt", lib.Hex(m), strconv.Itoa(int(t)), strconv.Itoa(int(s)), strconv.Itoa(int(et)), lib.Hex(emsg))
	}
	for _, m := range methods {
		for _, t := range []int32{1, 2, 3, 4, 0, 65536 + 3, -65533, 7} {
			rt(m, t, int32(pickI64(r, seqs)), int32(r.Pick(0, 1, 6, 10, 11, -1, 2147483647, -2147483648)), content(r, r.Pick(0, 0, 3, 30, 500)))
		}
	}
	for i := 0; i < n; i++ {
		m := content(r, r.Pick(1, 4, r.Intn(30)+1))
		t := int32(r.Pick(1, 2, 3, 3, 4, int(int32(r.U64()))))
		rt(m, t, int32(r.U64()), int32(r.U64()), content(r, r.Pick(0, 1, r.Intn(40), r.Intn(3000))))
	}
	// 4. unmarshal of damaged messages: cut points, perturbed bytes, exception payloads with unknown fields
	for i := 0; i < n/4+8; i++ {
		m := content(r, r.Pick(1, 4, 9))
		t := int32(r.Pick(1, 2, 3, 3))
		ex := thrift.NewApplicationException(int32(r.Intn(12)), string(content(r, r.Intn(12))))
		good, _ := thrift.MarshalFastMsg(string(m), thrift.TMessageType(t), int32(r.U64()), ex)
		for cut := 0; cut <= len(good); cut++ {
			em.Count("unmarshal:cut")
			em.Line(runUnmarshal(good[:cut]), "msg", "unmarshal", lib.Hex(good[:cut]))
		}
		for k := 0; k < 12; k++ {
			b := append([]byte(nil), good...)
			b[r.Intn(len(b))] = lib.BoundaryBytes[r.Intn(len(lib.BoundaryBytes))]
			em.Count("unmarshal:perturb")
			em.Line(runUnmarshal(b), "msg", "unmarshal", lib.Hex(b))
		}
	}
	g := lib.NewTGen(r)
	for i := 0; i < n/2+8; i++ { // exception / reply bodies with unknown fields in any order
		hdr := refEnc(Val{K: "msg", S: content(r, r.Intn(6)+1), MsgTyp: int32(r.Pick(3, 3, 2)), I: int64(int32(r.U64()))})
		b := hdr
		nf := r.Intn(5)
		for f := 0; f < nf; f++ {
			switch r.Intn(4) {
			case 0:
				b = append(b, refEnc(Val{K: "field", T: 11, I: 1})...)
				b = append(b, refEnc(Val{K: "string", S: content(r, r.Intn(9))})...)
			case 1:
				b = append(b, refEnc(Val{K: "field", T: 8, I: 2})...)
				b = append(b, refEnc(Val{K: "i32", I: int64(int32(r.U64()))})...)
			default:
				t := lib.AllTypes[r.Intn(len(lib.AllTypes))]
				b = append(b, refEnc(Val{K: "field", T: t, I: int64(r.Pick(1, 2, 3, -1, 300))})...)
				b = g.Value(b, t, 2)
			}
		}
		if r.Chance(5, 6) {
			b = append(b, 0)
		}
		b = append(b, r.Bytes(r.Pick(0, 0, 2))...)
		em.Count("unmarshal:unknown-fields")
		em.Line(runUnmarshal(b), "msg", "unmarshal", lib.Hex(b))
	}
}

func replay(lines [][]string) {
	for _, f := range lines {
		if len(f) < 3 {
			continue
		}
		switch {
		case f[0] == "wire" && f[1] == "w-inplace":
			n, err := strconv.Atoi(f[2])
			if v, ok := ParseVal(f[3:]); ok && err == nil {
				em.Line(runInplace(n, v), f...)
			}
		case f[0] == "wire" && f[1] == "w-append":
			if v, ok := ParseVal(f[3:]); ok {
				em.Line(runAppend(lib.UnHex(f[2]), v), f...)
			}
		case f[0] == "wire" && f[1] == "w-stream":
			if v, ok := ParseVal(f[3:]); ok {
				em.Line(runStreamWrite(f[2], v), f...)
			}
		case f[0] == "wire" && f[1] == "r-two" && len(f) == 4:
			em.Line(runTwo(lib.UnHex(f[2]), f[3]), f...)
		case f[0] == "wire" && f[1] == "r-hist" && len(f) == 6:
			if ks, b := strings.Split(f[2], ","), lib.UnHex(f[4]); histAllocOK(ks, b) {
				em.Line(runHist(ks, f[3], b, f[5]), f...)
			}
		case f[0] == "wire" && f[1] == "r-buf-late" && len(f) == 5:
			em.Line(runReadBufLate(f[2] == "s1", f[3], lib.UnHex(f[4])), f...)
		case f[0] == "msg" && f[1] == "unmarshal-late" && len(f) == 4:
			em.Line(runUnmarshalLate(f[2] == "s1", lib.UnHex(f[3])), f...)
		case f[0] == "wire" && f[1] == "r-recycle" && len(f) == 5:
			em.Line(runRecycle(lib.UnHex(f[2]), lib.UnHex(f[3]), f[4]), f...)
		case f[0] == "wire" && (f[1] == "w-seq" || f[1] == "w-multi"):
			var vs []Val
			ok := true
			cur := []string{}
			for _, t := range append(append([]string{}, f[3:]...), "/") {
				if t == "/" {
					v, o := ParseVal(cur)
					ok = ok && o
					vs = append(vs, v)
					cur = []string{}
				} else {
					cur = append(cur, t)
				}
			}
			if ok && f[1] == "w-seq" {
				em.Line(runSeq(f[2], vs), f...)
			} else if ok {
				em.Line(runMulti(f[2], vs), f...)
			}
		case f[0] == "wire" && f[1] == "len":
			if v, ok := ParseVal(f[2:]); ok {
				em.Line(runLen(v), f...)
			}
		case f[0] == "wire" && f[1] == "r-buf" && len(f) == 4:
			em.Line(runReadBuf(f[2], lib.UnHex(f[3])), f...)
		case f[0] == "wire" && f[1] == "r-stream" && len(f) == 5:
			if declared(f[2], lib.UnHex(f[3])) <= allocCap {
				em.Line(runReadStream(f[2], lib.UnHex(f[3]), f[4]), f...)
			}
		case f[0] == "msg" && f[1] == "rt" && len(f) == 7:
			t, _ := strconv.ParseInt(f[3], 10, 64)
			s, _ := strconv.ParseInt(f[4], 10, 64)
			et, _ := strconv.ParseInt(f[5], 10, 64)
			em.Line(runMsgRT(lib.UnHex(f[2]), int32(t), int32(s), int32(et), lib.UnHex(f[6])), f...)
		case f[0] == "msg" && f[1] == "unmarshal" && len(f) == 3:
			em.Line(runUnmarshal(lib.UnHex(f[2])), f...)
		}
	}
}

func main() {
	only := flag.String("only", "", "c01|c12 (default: both parts)")
	o := lib.ParseOpts()
	em = lib.NewEmitter()
	if o.Replay != "" {
		replay(lib.ReadOpLines(o.Replay))
		em.Close(o.Stats)
		return
	}
	replay(lib.ReadOpLines(o.Corpus))
	r := lib.NewRng(o.Seed)
	if *only == "" || *only == "c01" {
		genC01(o, r)
	}
	if *only == "" || *only == "c12" {
		genC12(o, lib.NewRng(o.Seed^0x5bd1e995))
	}
	if *only == "c16" { // the stream reader's share of C16: values handed out stay what they were
		rr := lib.NewRng(o.Seed ^ 0x2545f491)
		k := 400
		if o.Tier == "thorough" {
			k = 4000
		}
		genTwo(rr, k)
		genRecycle(rr, k)
		genHist(rr, k/2)
		genBufLate(rr, k/4)
	}
	em.Close(o.Stats)
}

func pickS(r *lib.Rng, xs ...string) string { return xs[r.Intn(len(xs))] }
func pickI64(r *lib.Rng, xs []int64) int64  { return xs[r.Intn(len(xs))] }

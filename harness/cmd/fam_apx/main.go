// fam_apx: correspondence harness for the apache bridge (C19).
// Every line is a whole, self-contained history (see lean/Drv/Apx.lean for the line formats).
package main

import (
	"bytes"
	"context"
	"fmt"
	"io"
	"math"
	"strconv"
	"strings"

	"github.com/cloudwego/gopkg/bufiox"
	"github.com/cloudwego/gopkg/protocol/thrift/apache"
	"verifharness/lib"
)

var em *lib.Emitter

// ---------------------------------------------------------------- buffer transport histories

func tail(t apache.TTransport, b *bytes.Buffer) string {
	return fmt.Sprintf("rem=%d,len=%d,bytes=%s", t.RemainingBytes(), b.Len(), lib.Hex(b.Bytes()))
}

func errStr(err error) string {
	switch err {
	case nil:
		return "nil"
	case io.EOF:
		return "eof"
	}
	return "other"
}

func runSeq(via, initHex, ops string) string {
	return lib.Guard(func() string {
		init := lib.UnHex(initHex)
		// the buffer owns its initial slice (bytes.NewBuffer takes ownership): give it a private copy
		b := bytes.NewBuffer(append([]byte(nil), init...))
		var t apache.TTransport
		switch via {
		case "buffer":
			t = apache.NewBufferTransport(b)
		case "default":
			t = apache.NewDefaultTransport(b)
		default:
			return "bad-op"
		}
		out := []string{tail(t, b)}
		if ops == "-" {
			return out[0]
		}
		for _, it := range strings.Split(ops, ",") {
			f := strings.Split(it, ":")
			var rw io.ReadWriter = t
			if len(f) == 2 && f[0][1] == 'B' {
				rw = b
			}
			var res string
			switch {
			case len(f) == 2 && (f[0] == "wT" || f[0] == "wB"):
				wp := lib.UnHex(f[1])
				n, err := rw.Write(wp)
				scribble(wp) // the caller reuses its slice: what was written must not change with it
				res = fmt.Sprintf("n=%d,err=%s", n, errStr(err))
			case len(f) == 2 && (f[0] == "rT" || f[0] == "rB"):
				k, e := strconv.Atoi(f[1])
				if e != nil || k < 0 || k > 1<<20 {
					return "bad-op"
				}
				p := make([]byte, k)
				n, err := rw.Read(p)
				res = fmt.Sprintf("n=%d,data=%s,err=%s", n, lib.Hex(p[:n]), errStr(err))
			case it == "reset":
				b.Reset()
				res = "done"
			case it == "close":
				res = "err=" + errStr(t.Close())
			case it == "flush":
				res = "ret=" + errStr(t.Flush(context.Background()))
			case it == "open":
				res = "ret=" + errStr(t.Open())
			case it == "isopen":
				res = fmt.Sprintf("ret=%v", t.IsOpen())
			default:
				return "bad-op"
			}
			out = append(out, res+","+tail(t, b))
		}
		return strings.Join(out, ";")
	})
}

// ---------------------------------------------------------------- generic transport
//
// histories on defaultTransport{obj}: obj is a buffer-like io.ReadWriter with a Close of its own
// (recorded: defaultTransport.Close must not reach it) and optionally ReadableLen() = Len().

type liveBase struct {
	bytes.Buffer
	closed bool
}

func (l *liveBase) Close() error { l.closed = true; return nil }

type liveRL struct{ liveBase }

func (l *liveRL) ReadableLen() int { return l.Len() }

func runDseq(kind, initHex, ops string) string {
	return lib.Guard(func() string {
		init := append([]byte(nil), lib.UnHex(initHex)...)
		var rw io.ReadWriter
		var base *liveBase
		switch kind {
		case "rl":
			o := &liveRL{}
			rw, base = o, &o.liveBase
		case "norl":
			base = &liveBase{}
			rw = base
		default:
			return "bad-op"
		}
		base.Buffer = *bytes.NewBuffer(init)
		t := apache.NewDefaultTransport(rw)
		dtail := func() string {
			return fmt.Sprintf("rem=%d,len=%d,bytes=%s,closed=%v", t.RemainingBytes(), base.Len(), lib.Hex(base.Bytes()), base.closed)
		}
		out := []string{dtail()}
		if ops == "-" {
			return out[0]
		}
		for _, it := range strings.Split(ops, ",") {
			f := strings.Split(it, ":")
			var h io.ReadWriter = t
			if len(f) == 2 && f[0][1] == 'B' {
				h = rw
			}
			var res string
			switch {
			case len(f) == 2 && (f[0] == "wT" || f[0] == "wB"):
				wp := lib.UnHex(f[1])
				n, err := h.Write(wp)
				scribble(wp)
				res = fmt.Sprintf("n=%d,err=%s", n, errStr(err))
			case len(f) == 2 && (f[0] == "rT" || f[0] == "rB"):
				k, e := strconv.Atoi(f[1])
				if e != nil || k < 0 || k > 1<<20 {
					return "bad-op"
				}
				p := make([]byte, k)
				n, err := h.Read(p)
				res = fmt.Sprintf("n=%d,data=%s,err=%s", n, lib.Hex(p[:n]), errStr(err))
			case it == "reset":
				base.Reset()
				res = "done"
			case it == "close":
				res = "err=" + errStr(t.Close())
			case it == "flush":
				res = "ret=" + errStr(t.Flush(context.Background()))
			case it == "open":
				res = "ret=" + errStr(t.Open())
			case it == "isopen":
				res = fmt.Sprintf("ret=%v", t.IsOpen())
			default:
				return "bad-op"
			}
			out = append(out, res+","+dtail())
		}
		return strings.Join(out, ";")
	})
}

type rwPlain struct{ bytes.Buffer } // an io.ReadWriter that is neither *bytes.Buffer nor has ReadableLen

type rwRL struct {
	bytes.Buffer
	n int
}

func (r *rwRL) ReadableLen() int { return r.n }

func runDrem(arg string) string {
	return lib.Guard(func() string {
		var rw io.ReadWriter
		if arg == "none" {
			rw = &rwPlain{}
		} else {
			n, err := strconv.ParseInt(arg, 10, 64)
			if err != nil {
				return "bad-op"
			}
			rw = &rwRL{n: int(n)}
		}
		t := apache.NewDefaultTransport(rw)
		return strconv.FormatUint(t.RemainingBytes(), 10)
	})
}

// rwTT is an io.ReadWriter that already has the whole TTransport method set (a kitex-style buffer):
// NewDefaultTransport must still wrap it and report ReadableLen, not its own RemainingBytes.
type rwTT struct {
	bytes.Buffer
	m uint64
}

func (r *rwTT) Close() error                { return nil }
func (r *rwTT) Flush(context.Context) error { return nil }
func (r *rwTT) Open() error                 { return nil }
func (r *rwTT) IsOpen() bool                { return true }
func (r *rwTT) RemainingBytes() uint64      { return r.m }

type rwTTRL struct {
	rwTT
	n int
}

func (r *rwTTRL) ReadableLen() int { return r.n }

var (
	_ apache.TTransport = &rwTT{}
	_ apache.TTransport = &rwTTRL{}
)

func runDtr(arg, ms string) string {
	return lib.Guard(func() string {
		m, err := strconv.ParseUint(ms, 10, 64)
		if err != nil {
			return "bad-op"
		}
		var rw io.ReadWriter
		if arg == "none" {
			rw = &rwTT{m: m}
		} else {
			n, err := strconv.ParseInt(arg, 10, 64)
			if err != nil {
				return "bad-op"
			}
			rw = &rwTTRL{rwTT: rwTT{m: m}, n: int(n)}
		}
		t := apache.NewDefaultTransport(rw)
		return fmt.Sprintf("rem=%d wrapped=%v", t.RemainingBytes(), interface{}(t) != interface{}(rw))
	})
}

func runDbt(initHex, wHex string) string {
	return lib.Guard(func() string {
		b := bytes.NewBuffer(append([]byte(nil), lib.UnHex(initHex)...))
		inner := apache.NewBufferTransport(b)
		rw, ok := inner.(io.ReadWriter)
		if !ok {
			return "bad-op"
		}
		t := apache.NewDefaultTransport(rw)
		if _, err := t.Write(lib.UnHex(wHex)); err != nil {
			return "write-error"
		}
		return fmt.Sprintf("rem=%d inner=%d len=%d wrapped=%v", t.RemainingBytes(), inner.RemainingBytes(), b.Len(),
			interface{}(t) != interface{}(inner))
	})
}

// ---------------------------------------------------------------- callbacks

type cbErr struct{ k int }

func (e *cbErr) Error() string { return "callback error" }

var cbErrs = map[int]*cbErr{}

func cbRet(k int) error {
	if k == 0 {
		return nil
	}
	if e, ok := cbErrs[k]; ok {
		return e
	}
	e := &cbErr{k}
	cbErrs[k] = e
	return e
}

type valObj struct{ id int }

var (
	seenX, seenV interface{}
	everReg      bool
)

func retStr(err error) string {
	if err == nil {
		return "nil"
	}
	if e, ok := err.(*cbErr); ok && cbErrs[e.k] == e {
		return fmt.Sprintf("cb%d", e.k)
	}
	return "other"
}

func notRegStr(err error) string {
	// the three package errors are unexported variables: recognised by their fixed text
	switch err.Error() {
	case "func `RegisterCheckTStruct` not called":
		return "err=notreg-check"
	case "func `RegisterThriftRead` not called":
		return "err=notreg-read"
	case "func `RegisterThriftWrite` not called":
		return "err=notreg-write"
	}
	return ""
}

func callRes(err error, called bool, x, v interface{}) string {
	if !called {
		if err == nil {
			return "err=nil-without-call"
		}
		if s := notRegStr(err); s != "" {
			return s
		}
		return "err=other"
	}
	same := "same"
	if seenX != x || seenV != v {
		same = "diff"
	}
	return "ret=" + retStr(err) + ",args=" + same
}

func doCall(it string) string {
	f := strings.Split(it, ":")
	seenX, seenV = nil, nil
	called = false
	atoi := func(s string) int { n, _ := strconv.Atoi(s); return n }
	switch {
	case f[0] == "c" && len(f) == 2:
		v := &valObj{atoi(f[1])}
		err := apache.CheckTStruct(v)
		return callRes(err, called, nil, v)
	case f[0] == "r" && len(f) == 3:
		x := bufiox.NewBytesReader([]byte{byte(atoi(f[1]))})
		v := &valObj{atoi(f[2])}
		err := apache.ThriftRead(x, v)
		return callRes(err, called, x, v)
	case f[0] == "w" && len(f) == 3:
		var buf []byte
		x := bufiox.NewBytesWriter(&buf)
		v := &valObj{atoi(f[2])}
		err := apache.ThriftWrite(x, v)
		return callRes(err, called, x, v)
	}
	return "bad-op"
}

var called bool

func register(regs string) bool {
	f := strings.Split(regs, "/")
	if len(f) != 3 {
		return false
	}
	ks := make([]int, 3)
	for i, s := range f {
		if s == "nil" {
			ks[i] = -1
			continue
		}
		k, err := strconv.Atoi(s)
		if err != nil || k < 0 {
			return false
		}
		ks[i] = k
	}
	everReg = true
	if ks[0] < 0 {
		apache.RegisterCheckTStruct(nil)
	} else {
		k := ks[0]
		apache.RegisterCheckTStruct(func(v interface{}) error { called, seenX, seenV = true, nil, v; return cbRet(k) })
	}
	if ks[1] < 0 {
		apache.RegisterThriftRead(nil)
	} else {
		k := ks[1]
		apache.RegisterThriftRead(func(r bufiox.Reader, v interface{}) error { called, seenX, seenV = true, r, v; return cbRet(k) })
	}
	if ks[2] < 0 {
		apache.RegisterThriftWrite(nil)
	} else {
		k := ks[2]
		apache.RegisterThriftWrite(func(w bufiox.Writer, v interface{}) error { called, seenX, seenV = true, w, v; return cbRet(k) })
	}
	return true
}

func runCb(regs, calls string) string {
	return lib.Guard(func() string {
		if !register(regs) {
			return "bad-op"
		}
		var out []string
		for _, it := range strings.Split(calls, ",") {
			out = append(out, doCall(it))
		}
		return strings.Join(out, ";")
	})
}

func runNever() string {
	if everReg {
		return "skipped"
	}
	return lib.Guard(func() string {
		return doCall("c:1") + ";" + doCall("r:2:3") + ";" + doCall("w:4:5")
	})
}

// ---------------------------------------------------------------- dispatch

func runOp(f []string) (string, bool) {
	if len(f) < 2 || f[0] != "apx" {
		return "", false
	}
	switch {
	case f[1] == "seq" && len(f) == 5:
		return runSeq(f[2], f[3], f[4]), true
	case f[1] == "dseq" && len(f) == 5:
		return runDseq(f[2], f[3], f[4]), true
	case f[1] == "drem" && len(f) == 3:
		return runDrem(f[2]), true
	case f[1] == "dtr" && len(f) == 4:
		return runDtr(f[2], f[3]), true
	case f[1] == "dbt" && len(f) == 4:
		return runDbt(f[2], f[3]), true
	case f[1] == "never" && len(f) == 2:
		return runNever(), true
	case f[1] == "cb" && len(f) == 4:
		return runCb(f[2], f[3]), true
	}
	return "", false
}

func emit(f ...string) {
	res, ok := runOp(f)
	if ok {
		em.Line(res, f...)
	}
}

// ---------------------------------------------------------------- generators

func sizeClass(n int) string {
	switch {
	case n == 0:
		return "0"
	case n == 1:
		return "1"
	case n < 64:
		return "<64"
	case n < 4096:
		return "<4096"
	}
	return ">=4096"
}

func genSeq(r *lib.Rng, steps int, big bool) string {
	var ops []string
	for i := 0; i < steps; i++ {
		h := "T"
		if r.Bool() {
			h = "B"
		}
		em.Count("handle:" + h)
		size := func() int {
			if big && r.Chance(1, 6) {
				return r.Pick(63, 64, 65, 511, 512, 513, 4095, 4096, 4097, 8192)
			}
			return r.Pick(0, 1, 1, 2, 3, 5, 8, 13, 40)
		}
		switch r.Intn(12) {
		case 0, 1, 2, 3:
			n := size()
			em.Count("write:" + sizeClass(n))
			ops = append(ops, "w"+h+":"+lib.Hex(r.Bytes(n)))
		case 4, 5, 6, 7:
			n := size()
			em.Count("read:" + sizeClass(n))
			ops = append(ops, "r"+h+":"+strconv.Itoa(n))
		case 8:
			em.Count("op:reset")
			ops = append(ops, "reset")
		case 9:
			em.Count("op:close")
			ops = append(ops, "close")
		case 10:
			ops = append(ops, []string{"flush", "open", "isopen"}[r.Intn(3)])
			em.Count("op:noop")
		default: // drain: read more than is there
			em.Count("read:drain")
			ops = append(ops, "r"+h+":"+strconv.Itoa(r.Pick(100, 10000)))
		}
	}
	return strings.Join(ops, ",")
}

func genCases(o *lib.Opts) {
	r := lib.NewRng(o.Seed)
	// 0. never-registered state first (there is no way back to it in one process)
	emit("apx", "never")
	em.Count("cb:never")
	n := o.N
	if n == 0 {
		n = 5000
		if o.Tier == "thorough" {
			n = 50000
		}
	}
	// 1. every op sequence over a small alphabet up to a length bound, from an empty and a non-empty buffer
	alpha := []string{"wT:ab", "wB:cdef", "wT:-", "rT:0", "rT:1", "rB:1", "rB:5", "reset", "close", "flush"}
	maxLen := 3
	if o.Tier == "thorough" {
		maxLen = 4
	}
	var rec func(cur []string)
	rec = func(cur []string) {
		if len(cur) > 0 {
			for _, init := range []string{"-", "010203"} {
				via := "buffer"
				if (len(cur)+len(init))%2 == 0 {
					via = "default"
				}
				emit("apx", "seq", via, init, strings.Join(cur, ","))
				em.Count("seq:exhaustive")
				// the same history on the generic transport (Close there is a no-op)
				kind := "rl"
				if (len(cur)+len(init))%2 == 0 {
					kind = "norl"
				}
				emit("apx", "dseq", kind, init, strings.Join(cur, ","))
				em.Count("dseq:exhaustive")
			}
		}
		if len(cur) == maxLen {
			return
		}
		for _, a := range alpha {
			rec(append(append([]string(nil), cur...), a))
		}
	}
	rec(nil)
	emit("apx", "seq", "buffer", "-", "-")
	emit("apx", "seq", "default", "0102", "-")
	// 2. random histories, mixed handles, boundary sizes
	for i := 0; i < n; i++ {
		via := []string{"buffer", "default"}[r.Intn(2)]
		init := lib.Hex(r.Bytes(r.Pick(0, 0, 1, 3, 64, 65)))
		big := i%10 == 0
		steps := r.Range(1, 30)
		if big {
			steps = r.Range(1, 10)
		}
		ops := genSeq(r, steps, big)
		emit("apx", "seq", via, init, ops)
		em.Count("seq:random")
		if i%2 == 0 {
			kind := []string{"rl", "norl"}[r.Intn(2)]
			emit("apx", "dseq", kind, init, ops)
			em.Count("dseq:random")
			em.Count("dseq:" + kind)
			if strings.Contains(ops, "close") {
				em.Count("dseq:with-close")
			}
		}
		em.Count("via:" + via)
	}
	// 2b. histories in which the underlying buffer has grown large (one write beyond 64 KiB, 1 MiB in the
	// thorough tier) before Close / Reset / further use: whatever the transport does with a big buffer, it must
	// still be the buffer (seeded change C19_w6_1: Close swapped a grown buffer for a 4096-byte zero-filled one)
	hugeSizes := []int{16383, 16384, 20000, 32769, 65537, 70000, 131073}
	if o.Tier == "thorough" {
		hugeSizes = append(hugeSizes, 1<<20+1)
	}
	for i, hs := range hugeSizes {
		via := []string{"buffer", "default"}[i%2]
		for _, mid := range []string{"close", "reset", "rT:10"} {
			ops := "wT:" + lib.Hex(r.Bytes(hs)) + "," + mid + ",wB:0102,rT:5,close,wT:03,rB:4"
			emit("apx", "seq", via, "-", ops)
			em.Count("seq:huge-buffer")
		}
	}
	// 3. generic transport: no ReadableLen, and ReadableLen values <= 0, 1, large
	emit("apx", "drem", "none")
	for _, v := range []int64{0, -1, 1, 2, 7, math.MinInt64, math.MinInt64 + 1, math.MaxInt64, math.MaxInt64 - 1,
		math.MaxInt32, math.MaxInt32 + 1, math.MinInt32, -(1 << 32), 1 << 32, 1 << 62} {
		emit("apx", "drem", strconv.FormatInt(v, 10))
	}
	for i := 0; i < 200; i++ {
		v := int64(r.U64())
		if r.Chance(1, 3) {
			v >>= uint(r.Intn(63))
		}
		emit("apx", "drem", strconv.FormatInt(v, 10))
		switch {
		case v > 0:
			em.Count("drem:pos")
		case v == 0:
			em.Count("drem:zero")
		default:
			em.Count("drem:neg")
		}
	}
	// 3b. wrapped objects that are TTransports themselves (own RemainingBytes = m, ReadableLen = n or absent)
	ms := []uint64{0, 1, 5, 1 << 40, math.MaxUint64}
	for _, m := range ms {
		emit("apx", "dtr", "none", strconv.FormatUint(m, 10))
		em.Count("dtr:no-readablelen")
		for _, v := range []int64{0, -1, 1, 2, 7, math.MinInt64, math.MaxInt64, 1 << 32} {
			emit("apx", "dtr", strconv.FormatInt(v, 10), strconv.FormatUint(m, 10))
			if v > 0 && uint64(v) == m {
				em.Count("dtr:own=readablelen")
			} else {
				em.Count("dtr:own!=readablelen")
			}
		}
	}
	for i := 0; i < 200; i++ {
		v := int64(r.U64()) >> uint(r.Intn(63))
		m := r.U64() >> uint(r.Intn(64))
		emit("apx", "dtr", strconv.FormatInt(v, 10), strconv.FormatUint(m, 10))
		em.Count("dtr:random")
	}
	// 3c. a buffer transport handed back to NewDefaultTransport: wrapped, no ReadableLen => unknown
	for _, sz := range []int{0, 1, 3, 64, 65, 4096} {
		for _, wsz := range []int{0, 1, 2, 100} {
			emit("apx", "dbt", lib.Hex(r.Bytes(sz)), lib.Hex(r.Bytes(wsz)))
			em.Count("dbt")
		}
	}
	// 4. callbacks: every registered/unregistered combination, each entry point
	regv := []string{"nil", "0", "1", "7"}
	for _, c := range regv {
		for _, rd := range regv {
			for _, w := range regv {
				calls := fmt.Sprintf("c:%d,r:%d:%d,w:%d:%d,c:%d", r.Intn(100), r.Intn(256), r.Intn(100), r.Intn(256), r.Intn(100), r.Intn(100))
				emit("apx", "cb", c+"/"+rd+"/"+w, calls)
				em.Count("cb:combo")
			}
		}
	}
	for i := 0; i < 100; i++ {
		pick := func() string {
			if r.Chance(1, 3) {
				return "nil"
			}
			return strconv.Itoa(r.Intn(50))
		}
		var calls []string
		for j := r.Range(1, 6); j > 0; j-- {
			switch r.Intn(3) {
			case 0:
				calls = append(calls, fmt.Sprintf("c:%d", r.Intn(1000)))
			case 1:
				calls = append(calls, fmt.Sprintf("r:%d:%d", r.Intn(256), r.Intn(1000)))
			default:
				calls = append(calls, fmt.Sprintf("w:%d:%d", r.Intn(256), r.Intn(1000)))
			}
		}
		emit("apx", "cb", pick()+"/"+pick()+"/"+pick(), strings.Join(calls, ","))
		em.Count("cb:random")
	}
	// leave the process as found: everything un-registered again
	emit("apx", "cb", "nil/nil/nil", "c:1,r:2:3,w:4:5")
}

func replay(lines [][]string) {
	for _, f := range lines {
		emit(f...)
	}
}

// scribble overwrites a slice the harness passed to Write: a transport that kept the caller's memory instead of
// copying it (bytes.Buffer.Write copies) shows the scribbled bytes on the next read
func scribble(p []byte) {
	for i := range p {
		p[i] ^= 0xa5
	}
}

func main() {
	o := lib.ParseOpts()
	em = lib.NewEmitter()
	if o.Replay != "" {
		replay(lib.ReadOpLines(o.Replay))
		em.Close(o.Stats)
		return
	}
	replay(lib.ReadOpLines(o.Corpus))
	genCases(o)
	em.Close(o.Stats)
}

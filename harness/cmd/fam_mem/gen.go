package main

import (
	"encoding/binary"
	"fmt"
	"strconv"
	"strings"

	"verifharness/lib"
)

func pow2(n int) int {
	c := 1
	for c < n {
		c *= 2
	}
	return c
}

// big-chunk script: every Read delivers as much as fits (k entries)
func bigScript(k int) string {
	if k <= 0 {
		return "0*0"
	}
	return fmt.Sprintf("1048576*%d", k)
}

func genStream(r *lib.Rng, n int) string {
	if n <= 24 && r.Bool() {
		return lib.Hex(r.Bytes(n))
	}
	return fmt.Sprintf("g%dx%d", r.Intn(256), n)
}

var rdSizes = []int{0, 1, 2, 5, 100, 1000, 4095, 4096, 4097, 8192, 10000, 40000}

func genRdOps(r *lib.Rng, total int, nops int) string {
	var ops []string
	left := total
	for i := 0; i < nops; i++ {
		switch x := r.Intn(20); {
		case x < 8:
			n := rdSizes[r.Intn(len(rdSizes))]
			if r.Chance(1, 5) {
				n = r.Range(0, 300)
			}
			if n > left && r.Chance(3, 4) {
				n = left
			}
			if n <= left {
				left -= n
			}
			ops = append(ops, "n"+strconv.Itoa(n))
		case x < 11:
			n := rdSizes[r.Intn(len(rdSizes))]
			if n > left && r.Chance(3, 4) {
				n = left
			}
			ops = append(ops, "p"+strconv.Itoa(n))
		case x < 12:
			n := r.Pick(0, 1, 7, 4096, 5000)
			if n <= left {
				left -= n
			}
			ops = append(ops, "s"+strconv.Itoa(n))
		case x < 14:
			n := r.Pick(0, 1, 7, 100, 4096, 5000)
			if n <= left {
				left -= n
			}
			ops = append(ops, "b"+strconv.Itoa(n))
		case x < 15:
			ops = append(ops, "l")
		case x < 17:
			ops = append(ops, "r")
		case x < 19:
			ops = append(ops, "e")
		default:
			ops = append(ops, "n"+strconv.Itoa(r.Pick(-1, -5, left+1, left+5000)))
		}
	}
	if len(ops) == 0 {
		return "-"
	}
	return strings.Join(ops, ",")
}

func rdKind(r *lib.Rng, n int) string {
	if r.Chance(2, 3) {
		return "d"
	}
	c := n + r.Pick(0, 0, 1, 7, 100)
	switch r.Intn(4) {
	case 0:
		c = pow2(n) // power-of-two capacity: Free would pool it
	case 1:
		c = pow2(n+1) * 2
	}
	if c < n {
		c = n
	}
	if c == 0 {
		c = r.Pick(0, 1, 8, 4096)
	}
	return "b" + strconv.Itoa(c)
}

// coarseScript: like lib.GenScript but with chunks of at least total/40 bytes (the list-based Lean
// model pays O(position) per Read, so large streams get few reads), zero reads and errors included
func coarseScript(r *lib.Rng, total int) string {
	var s lib.Script
	left := total
	lo := total/40 + 1
	for left > 0 {
		if r.Chance(1, 8) {
			for z := r.Pick(1, 2, 5); z > 0; z-- {
				s = append(s, lib.Resp{K: 0, Err: -1})
			}
		}
		k := r.Range(lo, lo*4)
		if r.Chance(1, 4) {
			k = r.Pick(4096, 8192, 1<<20)
		}
		if k > left {
			k = left
		}
		left -= k
		if left == 0 && r.Chance(1, 2) {
			s = append(s, lib.Resp{K: k, Err: r.Pick(0, 0, 3)})
		} else {
			s = append(s, lib.Resp{K: k, Err: -1})
		}
	}
	switch r.Intn(6) {
	case 0:
		s = append(s, lib.Resp{K: 0, Err: r.Pick(1, 2)})
	case 1:
		if len(s) > 1 {
			s = s[:r.Intn(len(s))]
		}
	case 2:
		if len(s) > 0 {
			s[r.Intn(len(s))].Err = r.Pick(0, 1)
		}
	}
	return s.String()
}

func rdScript(r *lib.Rng, kind string, n int) string {
	if kind != "d" {
		return "-"
	}
	switch {
	case r.Chance(1, 3):
		return bigScript(n/100 + 3)
	case n > 3000:
		return coarseScript(r, n)
	default:
		return lib.GenScript(r, n).String()
	}
}

// a stream of thrift values with the type of each
func genValues(r *lib.Rng, g *lib.TGen, k int, maxStr int) (stream []byte, types []int) {
	for i := 0; i < k; i++ {
		t := lib.AllTypes[r.Intn(len(lib.AllTypes))]
		g.MaxStr = r.Pick(4, 40, 300, maxStr)
		g.Budget = maxStr * 4
		v := g.Gen(t, r.Pick(0, 1, 2, 3))
		stream = append(stream, v...)
		types = append(types, t)
	}
	return
}

func genC09(o *lib.Opts) {
	r := lib.NewRng(o.Seed ^ 0xc09)
	g := lib.NewTGen(r)
	scale := 1
	if o.Tier == "thorough" {
		scale = 30
	}
	if o.N > 0 {
		scale = o.N
	}
	div := 1
	if modeSuffix == "~" { // real pool + co-tenant: a sample in the quick tier, a fifth of the volume in thorough
		div = 8
		if o.Tier == "thorough" {
			scale, div = 6, 1
		}
	}
	// 1. bounded-exhaustive reader histories over a boundary alphabet (retain, grow, release)
	alpha := []string{"n1", "n4096", "p5000", "n9000", "r", "p1", "b4097"}
	maxLen := 3
	if o.Tier == "thorough" {
		maxLen = 4
	}
	if modeSuffix == "~" {
		maxLen = 2
	}
	var rec func(cur []string)
	rec = func(cur []string) {
		if len(cur) > 0 {
			ops := strings.Join(cur, ",")
			emit("rd", "d", "g1x30000", bigScript(40), ops)
			emit("rd", "b32768", "g1x30000", "-", ops)
			if len(cur) == maxLen {
				emit("rd", "d", "g1x30000", "1000*60", ops)
				emit("rd", "b30000", "g2x30000", "-", ops)
			}
		}
		if len(cur) == maxLen {
			return
		}
		for _, a := range alpha {
			rec(append(append([]string(nil), cur...), a))
		}
	}
	rec(nil)
	// 2. random reader histories
	for i := 0; i < 700*scale/div; i++ {
		n := r.Pick(0, 3, 50, 4000, 4096, 4100, 8192, 9000, 20000, 70000)
		if r.Chance(1, 4) {
			n = r.Range(0, 12000)
		}
		kind := rdKind(r, n)
		emit("rd", kind, genStream(r, n), rdScript(r, kind, n), genRdOps(r, n, r.Range(1, 24)))
	}
	// 3. skip decoder over bufiox: values retained across growth
	for i := 0; i < 150*scale/div; i++ {
		stream, types := genValues(r, g, r.Range(1, 12), 3000)
		if r.Chance(1, 6) && len(stream) > 2 {
			stream = stream[:r.Intn(len(stream))] // truncated: the last Next fails
		}
		var ops []string
		for _, t := range types {
			ops = append(ops, "t"+strconv.Itoa(t))
			switch r.Intn(8) {
			case 0:
				ops = append(ops, "r")
			case 1:
				ops = append(ops, "e")
			}
		}
		kind := rdKind(r, len(stream))
		emit("sd", kind, lib.Hex(stream), rdScript(r, kind, len(stream)), strings.Join(ops, ","))
	}
	// 4. ReaderSkipDecoder: grow = Malloc, copy, Free(old)
	for i := 0; i < 150*scale/div; i++ {
		// (every SkipN inside one Next reallocates and copies: keep the values small, the list-based
		// model pays for each of those allocations)
		stream, types := genValues(r, g, r.Range(1, 8), 300)
		for len(stream) > 2500 {
			stream, types = genValues(r, g, r.Range(1, 4), 40)
		}
		if r.Chance(1, 6) && len(stream) > 2 {
			stream = stream[:r.Intn(len(stream))]
		}
		var ops []string
		for _, t := range types {
			ops = append(ops, "t"+strconv.Itoa(t))
			if r.Chance(1, 8) {
				ops = append(ops, "e")
			}
		}
		sc := rdScript(r, "d", len(stream))
		if r.Bool() {
			sc = bigScript(len(stream) + 2)
		}
		emit("rsd", lib.Hex(stream), sc, strings.Join(ops, ","))
	}
	// 4b. ReaderSkipDecoder with values crossing 8 KiB / 16 KiB / 64 KiB, released and re-obtained from
	//     the decoder pool in the same history (the pooled decoder keeps its buffer), then used again
	bigs := []int{8100, 8192, 8200, 9000, 16380, 16384, 20000, 40000, 65530, 65536, 70000}
	for i := 0; i < 60*scale/div+4; i++ {
		var stream []byte
		var ops []string
		nv := r.Range(2, 5)
		for k := 0; k < nv; k++ {
			if k == 0 || r.Chance(1, 3) {
				n := bigs[r.Intn(len(bigs))]
				stream = binary.BigEndian.AppendUint32(stream, uint32(n))
				stream = append(stream, r.Bytes(n)...)
				ops = append(ops, "t11")
			} else {
				vs, ts := genValues(r, g, 1, 40)
				stream = append(stream, vs...)
				ops = append(ops, "t"+strconv.Itoa(ts[0]))
			}
			switch r.Intn(4) {
			case 0, 1:
				ops = append(ops, "R")
			case 2:
				ops = append(ops, "e")
			}
		}
		emit("rsd", lib.Hex(stream), bigScript(len(stream)/1000+40), strings.Join(ops, ","))
	}
	// ... and small ones with release / re-get
	for i := 0; i < 40*scale/div+2; i++ {
		stream, types := genValues(r, g, r.Range(2, 6), 300)
		for len(stream) > 2500 {
			stream, types = genValues(r, g, r.Range(2, 4), 40)
		}
		var ops []string
		for _, t := range types {
			ops = append(ops, "t"+strconv.Itoa(t))
			if r.Chance(1, 2) {
				ops = append(ops, "R")
			}
		}
		emit("rsd", lib.Hex(stream), rdScript(r, "d", len(stream)), strings.Join(ops, ","))
	}
	// 5. writer histories
	wsz := []int{0, 1, 7, 100, 1000, 4000, 4096, 4097, 5000, 9000, 20000}
	for i := 0; i < 600*scale/div; i++ {
		kind := "d"
		if r.Chance(1, 3) {
			c := r.Pick(0, 1, 8, 100, 4096, 5000, 8192, 10000)
			l := 0
			if c > 0 {
				l = r.Pick(0, 0, 1, c/2, c)
			}
			kind = fmt.Sprintf("b%d:%d", l, c)
		}
		sinkfail := 0
		if kind == "d" && r.Chance(1, 6) {
			sinkfail = r.Pick(1, 2)
		}
		var ops []string
		nreg := 0
		for k := r.Range(1, 20); k > 0; k-- {
			switch x := r.Intn(20); {
			case x < 7:
				n := wsz[r.Intn(len(wsz))]
				if r.Chance(1, 30) {
					n = -1
				}
				ops = append(ops, "m"+strconv.Itoa(n))
				nreg++
			case x < 11:
				ops = append(ops, "f"+strconv.Itoa(r.Intn(nreg+1)))
			case x < 14:
				ops = append(ops, "w"+strconv.Itoa(wsz[r.Intn(len(wsz))]))
			case x < 15:
				ops = append(ops, "l")
			case x < 18:
				ops = append(ops, "F")
			default:
				ops = append(ops, "e")
			}
		}
		if r.Chance(2, 3) {
			ops = append(ops, "F")
		}
		emit("wr", kind, strconv.Itoa(sinkfail), strings.Join(ops, ","))
	}
}

// ---------------------------------------------------------------- C16

var decLens = []int{0, 1, 5, 60, 127, 128, 129, 255, 256, 1000, 4096, 70000, 131071, 131072, 200000}

func genDecOps(r *lib.Rng, nitems int, mutate bool) string {
	var ops []string
	done := 0
	for done < nitems {
		if r.Bool() {
			ops = append(ops, "B")
		} else {
			ops = append(ops, "S")
		}
		done++
		switch r.Intn(8) {
		case 0:
			ops = append(ops, "A"+strconv.Itoa(r.Intn(done)))
		case 1:
			ops = append(ops, "W"+strconv.Itoa(r.Intn(done)))
		case 2:
			ops = append(ops, "e")
		case 3:
			if mutate && r.Chance(1, 3) {
				ops = append(ops, "M")
			}
		}
	}
	// at the end: mutate the input, modify and append to every result
	ops = append(ops, "M")
	for j := 0; j < done && j < 6; j++ {
		ops = append(ops, "A"+strconv.Itoa(j), "W"+strconv.Itoa(j))
	}
	ops = append(ops, "B") // one more decode after the mutation
	return strings.Join(ops, ",")
}

func genC16(o *lib.Opts) {
	r := lib.NewRng(o.Seed ^ 0xc16)
	scale := 1
	if o.Tier == "thorough" {
		scale = 20
	}
	if o.N > 0 {
		scale = o.N
	}
	div := 1
	if modeSuffix == "~" {
		div = 5
		if o.Tier == "thorough" {
			scale, div = 4, 1
		}
	}
	modes := func() (string, string) {
		switch r.Intn(4) {
		case 0, 1:
			return "bin", "-"
		case 2:
			return "brb" + strconv.Itoa(r.Pick(0, 1, 100)), "-"
		}
		return "brd", ""
	}
	// 1. every boundary length alone and in pairs, all modes, both span settings
	for _, l := range decLens {
		for _, mode := range []string{"bin", "brb0", "brd"} {
			sc := "-"
			if mode == "brd" {
				sc = bigScript(8)
			}
			emit("dec", mode, sc, "2", fmt.Sprintf("%d,%d,7", l, l), "B,S,M,A0,W0,B")
		}
	}
	// 2. random runs
	for i := 0; i < 200*scale/div; i++ {
		mode, sc := modes()
		var its []string
		total, n := 0, r.Range(1, 14)
		for k := 0; k < n; k++ {
			l := decLens[r.Intn(len(decLens))]
			if r.Chance(1, 2) {
				l = r.Range(0, 600)
			}
			if total+l > 150000 && !(i%10 == 0 && total+l < 600000) {
				l = r.Range(0, 300)
			}
			total += l + 4
			its = append(its, strconv.Itoa(l))
		}
		if sc == "" {
			if r.Bool() {
				sc = bigScript(total/100 + 8)
			} else {
				sc = rdScript(r, "d", total)
			}
		}
		emit("dec", mode, sc, strconv.Itoa(r.Pick(0, 1, 2, 2)), strings.Join(its, ","), genDecOps(r, n, r.Chance(1, 4)))
	}
	// 3. runs that wrap the 1 MiB span of one size class (and of several at once)
	wraps := [][2]int{{100000, 12}, {40000, 28}}
	if modeSuffix == "~" && o.Tier != "thorough" {
		wraps = [][2]int{{100000, 12}}
	}
	if o.Tier == "thorough" {
		wraps = append(wraps, [2]int{130000, 9}, [2]int{200, 5500}, [2]int{1000, 1100}, [2]int{65536, 17}, [2]int{131071, 9})
	}
	for _, w := range wraps {
		for _, mode := range []string{"bin", "brd"} {
			sc := "-"
			if mode == "brd" {
				sc = bigScript(w[1]*8 + 8)
			}
			ops := strings.TrimSuffix(strings.Repeat("B,", w[1]), ",") + ",M,A0,W1,A" + strconv.Itoa(w[1]-1)
			emit("dec", mode, sc, "1", fmt.Sprintf("%d*%d", w[0], w[1]), ops)
		}
	}
}

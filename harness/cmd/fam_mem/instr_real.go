//go:build memreal

package main

// The REAL bytedance/gopkg mcache (no overlay) with an adversarial co-tenant: between two operations
// it allocates from every size class of the shared pool, overwrites what it gets and gives it back, so a
// buffer the library recycled too early is scribbled over while a retained slice still points at it.
// No allocator events and no allocation numbers are available here: locations are C+off (caller memory),
// P (anything else), "-" (empty); op names carry the suffix "~" and the driver projects the model's trace.

import (
	"fmt"
	"runtime"

	"github.com/bytedance/gopkg/lang/mcache"
)

const modeSuffix = "~"

func instrReset() {}
func instrDrain() {}
func events() string { return "" }

func loc(b []byte, caller []byte) string {
	if len(b) == 0 {
		return "-"
	}
	if cap(caller) > 0 {
		p, c := ptrOf(b), ptrOf(caller)
		if p >= c && p < c+uintptr(cap(caller)) {
			return fmt.Sprintf("C+%d", p-c)
		}
	}
	return "P"
}

// The co-tenant HOLDS what it took until its next turn: envBetween (after EVERY operation) first
// scribbles over and returns the buffers it holds, then takes two buffers of every common size class
// (1 B ... 128 KiB) and fills them; the explicit `e` operations do a take-scribble-return for every class
// up to 2 MiB.  So a buffer the library recycled while still using it is overwritten while in use.
var coHeld [][]byte

func envBetween(r int) {
	for _, b := range coHeld {
		full := b[:cap(b)]
		for x := range full {
			full[x] = 0xDE
		}
		mcache.Free(b)
	}
	coHeld = coHeld[:0]
	for i := 0; i <= 17; i++ {
		for k := 0; k < 2; k++ {
			b := mcache.Malloc(1 << uint(i))
			full := b[:cap(b)]
			for x := range full {
				full[x] = 0xDE
			}
			coHeld = append(coHeld, b)
		}
	}
}

// coTenantTake: right after a Release, take and fill buffers of the given capacity's size class
func coTenantTake(c int) {
	if c <= 0 {
		return
	}
	for k := 0; k < 3; k++ {
		b := mcache.Malloc(c)
		full := b[:cap(b)]
		for x := range full {
			full[x] = 0xDE
		}
		coHeld = append(coHeld, b)
	}
}

func uaf(b []byte) string { return "" }

func env(r int) {
	for round := 0; round < 2; round++ {
		var held [][]byte
		for i := 0; i <= 21; i++ {
			for k := 0; k < 3; k++ {
				b := mcache.Malloc(1 << uint(i))
				full := b[:cap(b)]
				for x := range full {
					full[x] = 0xDE
				}
				held = append(held, b)
			}
		}
		for _, b := range held {
			mcache.Free(b)
		}
	}
	if r%5 == 0 {
		runtime.GC()
	}
}

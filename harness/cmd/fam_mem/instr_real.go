//go:build memreal

package main

// The REAL bytedance/gopkg mcache (no overlay) with an adversarial co-tenant: between two operations
// it allocates from every size class of the shared pool, overwrites what it gets and gives it back, so a
// buffer the library recycled too early is scribbled over while a retained slice still points at it.
// No allocator events and no allocation numbers are available here: locations are C+off (caller memory),
// P (anything else), "-" (empty); op names carry the suffix "~" and the driver projects the model's trace.

import (
	"fmt"
	"runtime"

	"github.com/bytedance/gopkg/lang/mcache"
)

const modeSuffix = "~"

func instrReset() {}
func instrDrain() {}
func events() string { return "" }

func loc(b []byte, caller []byte) string {
	if len(b) == 0 {
		return "-"
	}
	if cap(caller) > 0 {
		p, c := ptrOf(b), ptrOf(caller)
		if p >= c && p < c+uintptr(cap(caller)) {
			return fmt.Sprintf("C+%d", p-c)
		}
	}
	return "P"
}

// envBetween runs after EVERY operation: the co-tenant takes and scribbles buffers of the common size
// classes (1 B ... 128 KiB); the explicit `e` operations do the same for every class up to 2 MiB.
func envBetween(r int) {
	var held [][]byte
	for i := 0; i <= 17; i++ {
		for k := 0; k < 2; k++ {
			b := mcache.Malloc(1 << uint(i))
			full := b[:cap(b)]
			for x := range full {
				full[x] = 0xDE
			}
			held = append(held, b)
		}
	}
	for _, b := range held {
		mcache.Free(b)
	}
}

func env(r int) {
	for round := 0; round < 2; round++ {
		var held [][]byte
		for i := 0; i <= 21; i++ {
			for k := 0; k < 3; k++ {
				b := mcache.Malloc(1 << uint(i))
				full := b[:cap(b)]
				for x := range full {
					full[x] = 0xDE
				}
				held = append(held, b)
			}
		}
		for _, b := range held {
			mcache.Free(b)
		}
	}
	if r%5 == 0 {
		runtime.GC()
	}
}

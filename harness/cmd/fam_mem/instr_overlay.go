//go:build !memreal

package main

// Instrumented pool (go build -overlay): numbered allocations, event ring, poison.

import (
	"fmt"
	"runtime"
	"strings"

	"github.com/bytedance/gopkg/lang/mcache"
)

const modeSuffix = ""

func instrReset() { mcache.VerifReset() }
func instrDrain() { mcache.VerifEvents() }
func envBetween(int) {}

// uaf: the slice lies in a pool buffer that has already been given back with Free
func uaf(b []byte) string {
	if len(b) > 0 && mcache.VerifFreed(uptrOf(b)) {
		return " UAF"
	}
	return ""
}

// coTenantTake: nothing to do, the instrumented pool never hands a buffer out twice
func coTenantTake(int) {}

// loc: which object a slice lies in (never an address): M<k>+off, C+off, G, -
func loc(b []byte, caller []byte) string {
	if len(b) == 0 {
		return "-"
	}
	if id, off := mcache.VerifWhich(uptrOf(b)); id > 0 {
		return fmt.Sprintf("M%d+%d", id, off)
	}
	if cap(caller) > 0 {
		p, c := ptrOf(b), ptrOf(caller)
		if p >= c && p < c+uintptr(cap(caller)) {
			return fmt.Sprintf("C+%d", p-c)
		}
	}
	return "G"
}

// events since the last call, as " | M1:4096 F1"
func events() string {
	evs := mcache.VerifEvents()
	if len(evs) == 0 {
		return ""
	}
	var sb strings.Builder
	sb.WriteString(" |")
	for _, e := range evs {
		switch {
		case e.Kind == 'M':
			fmt.Fprintf(&sb, " M%d:%d", e.ID, e.Cap)
		case e.ID == 0:
			fmt.Fprintf(&sb, " F?:%d", e.Cap)
		case e.CapOK:
			fmt.Fprintf(&sb, " F%d", e.ID)
		default:
			fmt.Fprintf(&sb, " F%d:%d", e.ID, e.Cap)
		}
	}
	return sb.String()
}

// env: the co-tenant between two operations.  With the instrumented pool a recycled buffer is
// poisoned at Free already; here the Go heap is churned and collected, so that anything the library
// dropped really is gone.
var churn [][]byte

func env(r int) {
	churn = churn[:0]
	for i := 0; i < 8; i++ {
		b := make([]byte, 1<<(uint(i+r)%14))
		for k := range b {
			b[k] = 0xDE
		}
		churn = append(churn, b)
	}
	runtime.GC()
}


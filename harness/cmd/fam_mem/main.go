// fam_mem: correspondence harness for memory ownership / aliasing (C09, C16).
//
// Built with `-overlay /verif/harness/overlay/overlay.json`, which replaces bytedance/gopkg's
// lang/mcache/mcache.go by the instrumented pool (numbered allocations, never reused, 0xA5 / 0xDE
// poison, event ring).  One output line = one complete operation history, see lean/Drv/Mem.lean.
package main

import (
	"bytes"
	"runtime"
	"encoding/binary"
	"flag"
	"fmt"
	"strconv"
	"strings"
	"unsafe"

	"github.com/cloudwego/gopkg/bufiox"
	"github.com/cloudwego/gopkg/protocol/thrift"
	"verifharness/lib"
)

var em *lib.Emitter

// ---------------------------------------------------------------- shared helpers (mirrored in Drv/Mem.lean)

func pat(a, i int) byte { return byte(a + i*31 + i/253) }

func patBytes(a, n int) []byte {
	b := make([]byte, n)
	for i := range b {
		b[i] = pat(a, i)
	}
	return b
}

func cksum(b []byte) int {
	h := 7
	for _, x := range b {
		h = (h*31 + int(x)) % 65521
	}
	return h
}

func lc(b []byte) string { return fmt.Sprintf("%d:%d", len(b), cksum(b)) }

func parseStream(t string) []byte {
	if strings.HasPrefix(t, "g") {
		f := strings.Split(t[1:], "x")
		a, _ := strconv.Atoi(f[0])
		n, _ := strconv.Atoi(f[1])
		return patBytes(a, n)
	}
	return lib.UnHex(t)
}

type hdr struct {
	p   unsafe.Pointer
	len int
	cap int
}

func ptrOf(b []byte) uintptr   { return uintptr((*hdr)(unsafe.Pointer(&b)).p) }
func uptrOf(b []byte) unsafe.Pointer { return (*hdr)(unsafe.Pointer(&b)).p }
func sptrOf(s string) uintptr  { return *(*uintptr)(unsafe.Pointer(&s)) }

type liveSlice struct {
	b    []byte
	want []byte
	dead bool
}

func checkLive(live []liveSlice) string {
	s := ""
	for i := range live {
		if !live[i].dead && !bytes.Equal(live[i].b, live[i].want) {
			s += fmt.Sprintf(" STALE%d", i)
			live[i].dead = true
		}
	}
	return s
}

func atoi(s string) int { n, _ := strconv.Atoi(s); return n }

func splitOps(ops string) []string {
	if ops == "-" || ops == "" {
		return nil
	}
	return strings.Split(ops, ",")
}

// ---------------------------------------------------------------- rd / sd: reader histories

func mkReader(kind string, stream []byte, script string) (r bufiox.Reader, caller []byte) {
	if kind == "d" {
		return bufiox.NewDefaultReader(lib.NewSource(stream, lib.ParseScript(script))), nil
	}
	c := atoi(kind[1:])
	caller = make([]byte, len(stream), c)
	copy(caller, stream)
	sp := caller[len(stream):c]
	for i := range sp {
		sp[i] = 0x5c
	}
	return bufiox.NewBytesReader(caller), caller
}

func runRd(fam, kind, streamTok, script, ops string) string {
	instrReset()
	stream := parseStream(streamTok)
	r, caller := mkReader(kind, stream, script)
	var callerCopy []byte
	if caller != nil {
		callerCopy = append([]byte(nil), caller[:cap(caller)]...)
	}
	var sd *thrift.SkipDecoder
	if fam == "sd" {
		sd = thrift.NewSkipDecoder(r)
	}
	var live []liveSlice
	nlive := func() int { return len(live) }
	var out []string
	pos := 0 // bytes of the stream consumed so far
	// what a zero-copy slice shows must be the stream itself (a recycled buffer would show poison)
	corrupt := func(b []byte, at int) string {
		if at+len(b) > len(stream) || !bytes.Equal(b, stream[at:at+len(b)]) {
			return " CORRUPT"
		}
		return ""
	}
	hand := func(b []byte, err error, isErrNil bool, consume bool) string {
		if err != nil {
			return "err " + lib.ErrStr(err)
		}
		if isErrNil {
			return "err nil"
		}
		live = append(live, liveSlice{b: b, want: append([]byte(nil), b...)})
		c := corrupt(b, pos)
		if consume {
			pos += len(b)
		}
		return fmt.Sprintf("ok %s %s", lc(b), loc(b, caller)) + c + uaf(b)
	}
	dead := false
	for i, op := range splitOps(ops) {
		quiet := false
		res := lib.Guard(func() string {
			switch op[0] {
			case 'n', 'p':
				n := atoi(op[1:])
				var b []byte
				var err error
				if op[0] == 'n' {
					b, err = r.Next(n)
				} else {
					b, err = r.Peek(n)
				}
				// (nil, nil) for n > 0 is the model's `fail none`
				return hand(b, err, err == nil && len(b) != n, op[0] == 'n')
			case 's':
				if err := r.Skip(atoi(op[1:])); err != nil {
					return "err " + lib.ErrStr(err)
				}
				pos += atoi(op[1:])
				return "ok"
			case 'b':
				bs := make([]byte, atoi(op[1:]))
				m, err := r.ReadBinary(bs)
				c := corrupt(bs[:m], pos)
				pos += m
				return fmt.Sprintf("rb %s %s", lc(bs[:m]), lib.ErrStr(err)) + c
			case 'l':
				return fmt.Sprintf("len %d", r.ReadLen())
			case 't':
				b, err := sd.Next(thrift.TType(int8(atoi(op[1:]))))
				if err != nil {
					quiet, dead = true, true
					return "err " + lib.ErrStr(err)
				}
				return hand(b, nil, false, true)
			case 'r':
				// every slice handed out since the last Release must still hold what was returned
				s := fmt.Sprintf("rel %d", nlive()) + checkLive(live)
				r.Release(nil)
				live = live[:0]
				return s
			case 'e':
				env(i)
				return "env"
			}
			return "bad-op"
		})
		if strings.HasPrefix(res, "PANIC") {
			quiet, dead = true, true
		}
		envBetween(i)
		res += checkLive(live)
		if quiet {
			instrDrain()
		} else {
			res += events()
		}
		out = append(out, res)
		if dead {
			return strings.Join(out, " / ")
		}
	}
	fin := fmt.Sprintf("end %d", nlive()) + checkLive(live)
	switch {
	case caller == nil:
		fin += " caller=none"
	case bytes.Equal(caller[:cap(caller)], callerCopy):
		fin += " caller=ok"
	default:
		fin += " caller=changed"
	}
	out = append(out, fin+events())
	if sd != nil {
		sd.Release()
	}
	return strings.Join(out, " / ")
}

// ---------------------------------------------------------------- rsd: ReaderSkipDecoder

var rsdPoolDirty bool // a released decoder may still sit in sync.Pool

func runRsd(streamTok, script, ops string) string {
	if rsdPoolDirty {
		// two collections empty sync.Pool (victim cache): no decoder of an earlier history, with a buffer
		// of that history's allocation numbering, may be handed to this one
		runtime.GC()
		runtime.GC()
		rsdPoolDirty = false
	}
	instrReset()
	lastCap = 0
	stream := parseStream(streamTok)
	src := lib.NewSource(stream, lib.ParseScript(script))
	d := thrift.NewReaderSkipDecoder(src)
	var out []string
	pos := 0
	var last, lastWant []byte // the result of the latest Next: valid until the next Next / Release
	for i, op := range splitOps(ops) {
		quiet, dead := false, false
		res := lib.Guard(func() string {
			switch op[0] {
			case 't':
				last, lastWant = nil, nil
				b, err := d.Next(thrift.TType(int8(atoi(op[1:]))))
				if err != nil {
					quiet, dead = true, true
					return "err " + lib.ErrStr(err)
				}
				// the value must be the stream itself: a copy taken from an already recycled buffer is poison
				c := ""
				if pos+len(b) > len(stream) || !bytes.Equal(b, stream[pos:pos+len(b)]) {
					c = " CORRUPT"
				}
				pos += len(b)
				last, lastWant = b, append([]byte(nil), b...)
				return fmt.Sprintf("ok %s %s", lc(b), loc(b, nil)) + c + uaf(b)
			case 'R':
				// Release, then NewReaderSkipDecoder again: on one goroutine sync.Pool normally hands the
				// same object back (recorded: the model takes this bit as an input); in between the
				// co-tenant takes buffers of the size class the decoder's buffer had
				last, lastWant = nil, nil
				c := 0
				if pos > 0 {
					c = lastCap
				}
				old := d
				d.Release()
				coTenantTake(c)
				d = thrift.NewReaderSkipDecoder(src)
				if d == old {
					return "reget 1"
				}
				rsdPoolDirty = true
				return "reget 0"
			case 'e':
				env(i)
				return "env"
			}
			return "bad-op"
		})
		if last != nil {
			lastCap = cap(last)
		}
		if strings.HasPrefix(res, "PANIC") {
			quiet, dead = true, true
		}
		envBetween(i)
		if last != nil && !bytes.Equal(last, lastWant) {
			res += " STALE0"
			last = nil
		}
		if quiet {
			instrDrain()
		} else {
			res += events()
		}
		out = append(out, res)
		if dead {
			return strings.Join(out, " / ")
		}
	}
	out = append(out, "end"+events())
	return strings.Join(out, " / ")
}

var lastCap int

// ---------------------------------------------------------------- wr: writer histories

type sinkW struct {
	okLeft int // -1 never fails
	calls  int
	last   []byte
}

func (s *sinkW) Write(p []byte) (int, error) {
	s.calls++
	if s.okLeft == 0 {
		return 0, lib.InjErr(1)
	}
	if s.okLeft > 0 {
		s.okLeft--
	}
	s.last = append([]byte(nil), p...)
	return len(p), nil
}

type region struct {
	b    []byte
	live bool
	pat  int
}

func regPat(j, gen int) int { return j*37 + gen*11 + 1 }

func checkRegions(regs []region) string {
	s := ""
	for j := range regs {
		if regs[j].live && !bytes.Equal(regs[j].b, patBytes(regs[j].pat, len(regs[j].b))) {
			s += fmt.Sprintf(" CLOBBER%d", j)
			regs[j].live = false
		}
	}
	return s
}

func runWr(kind string, sinkfail int, ops string) string {
	instrReset()
	sink := &sinkW{okLeft: -1}
	if sinkfail > 0 {
		sink.okLeft = sinkfail - 1
	}
	var w bufiox.Writer
	var target []byte // bytes writer: the caller's slice variable
	var targetArr, targetCopy []byte
	isBytes := kind != "d"
	if !isBytes {
		w = bufiox.NewDefaultWriter(sink)
	} else {
		f := strings.Split(kind[1:], ":")
		l, c := atoi(f[0]), atoi(f[1])
		if c > 0 {
			targetArr = patBytes(9, c)
			target = targetArr[:l]
			targetCopy = append([]byte(nil), targetArr[:l]...)
		}
		w = bufiox.NewBytesWriter(&target)
	}
	var regs []region
	nilw := !isBytes || targetArr == nil // w.buf == nil
	var payloads, payloadCopies [][]byte
	gen := 0
	var out []string
	for i, op := range splitOps(ops) {
		res := lib.Guard(func() string {
			switch op[0] {
			case 'm':
				b, err := w.Malloc(atoi(op[1:]))
				if err != nil {
					return "err " + lib.ErrStr(err)
				}
				if len(b) > 0 {
					nilw = false
				}
				j := len(regs)
				copy(b, patBytes(regPat(j, 0), len(b))) // the user fills the region at once
				regs = append(regs, region{b: b, live: true, pat: regPat(j, 0)})
				return "ok " + loc(b, targetArr) + uaf(b)
			case 'f':
				j := atoi(op[1:])
				if j < 0 || j >= len(regs) || !regs[j].live {
					return "nofill"
				}
				gen++
				regs[j].pat = regPat(j, gen)
				copy(regs[j].b, patBytes(regs[j].pat, len(regs[j].b)))
				return "fill"
			case 'w':
				n := atoi(op[1:])
				p := patBytes(n+5, n)
				payloads = append(payloads, p)
				payloadCopies = append(payloadCopies, append([]byte(nil), p...))
				m, err := w.WriteBinary(p)
				if err != nil {
					return "err " + lib.ErrStr(err)
				}
				if m > 0 {
					nilw = false
				}
				return fmt.Sprintf("wb %d", m)
			case 'l':
				return fmt.Sprintf("len %d", w.WrittenLen())
			case 'F':
				// every region must still hold what its owner wrote last
				pre := checkRegions(regs)
				err := w.Flush()
				if err != nil {
					return "flush err " + lib.ErrStr(err) + pre
				}
				wasNil := nilw
				if !nilw {
					// the buffers are gone (freed, or handed to the caller): the regions die
					for j := range regs {
						regs[j].live = false
					}
					nilw = true
				}
				if isBytes {
					if target == nil {
						return "flush ok none" + pre
					}
					return fmt.Sprintf("flush ok %s %s", lc(target), loc(target, targetArr)) + pre
				}
				if wasNil {
					return "flush ok nil" + pre
				}
				return "flush ok " + lc(sink.last) + pre
			case 'e':
				env(i)
				return "env"
			}
			return "bad-op"
		})
		envBetween(i)
		res += checkRegions(regs)
		ev := events()
		if isBytes && ev != "" {
			res += " POOLED" // cache disabled: the pool must not be used at all
		}
		out = append(out, res+ev)
		if strings.HasPrefix(res, "PANIC") {
			return strings.Join(out, " / ")
		}
	}
	ok := true
	for k := range payloads {
		if !bytes.Equal(payloads[k], payloadCopies[k]) {
			ok = false
		}
	}
	if targetCopy != nil && !bytes.Equal(targetArr[:len(targetCopy)], targetCopy) {
		ok = false
	}
	fin := "end caller=ok"
	if !ok {
		fin = "end caller=changed"
	}
	out = append(out, fin+events())
	return strings.Join(out, " / ")
}

// ---------------------------------------------------------------- dec: copying decoders (C16)

func parseItems(t string) []int {
	var ls []int
	if t == "-" {
		return ls
	}
	for _, it := range strings.Split(t, ",") {
		if i := strings.IndexByte(it, '*'); i >= 0 {
			for c := atoi(it[i+1:]); c > 0; c-- {
				ls = append(ls, atoi(it[:i]))
			}
		} else {
			ls = append(ls, atoi(it))
		}
	}
	return ls
}

func itemsBytes(ls []int) []byte {
	var b []byte
	for j, l := range ls {
		b = binary.BigEndian.AppendUint32(b, uint32(l))
		b = append(b, patBytes(j+3, l)...)
	}
	return b
}

type result struct {
	isBin bool
	b     []byte
	s     string
	want  []byte
}

func (r *result) rng() (uintptr, uintptr) {
	if r.isBin {
		return ptrOf(r.b), uintptr(cap(r.b))
	}
	return sptrOf(r.s), uintptr(len(r.s))
}

func (r *result) cur() []byte {
	if r.isBin {
		return r.b
	}
	return []byte(r.s)
}

func overlap(p1, n1, p2, n2 uintptr) bool {
	return n1 > 0 && n2 > 0 && p1 < p2+n2 && p2 < p1+n1
}

func decTrace(mode, script string, spanOn bool, items, ops string) string {
	instrReset()
	thrift.SetSpanCache(spanOn)
	defer thrift.SetSpanCache(false)
	input := itemsBytes(parseItems(items))
	var caller, expect []byte
	var r bufiox.Reader
	var br *thrift.BufferReader
	pos := 0
	switch {
	case mode == "bin":
		caller = append(make([]byte, 0, len(input)), input...)
	case strings.HasPrefix(mode, "brb"):
		extra := atoi(mode[3:])
		caller = make([]byte, len(input), len(input)+extra)
		copy(caller, input)
		sp := caller[len(input):cap(caller)]
		for i := range sp {
			sp[i] = 0x5c
		}
		r = bufiox.NewBytesReader(caller)
	default:
		r = bufiox.NewDefaultReader(lib.NewSource(input, lib.ParseScript(script)))
	}
	if r != nil {
		br = thrift.NewBufferReader(r)
	}
	if caller != nil {
		expect = append([]byte(nil), caller[:cap(caller)]...)
	}
	var results []*result
	var out []string
	rel := func(nr *result) string {
		p, n := nr.rng()
		if caller != nil && overlap(p, n, ptrOf(caller), uintptr(cap(caller))) {
			return "OVERLAP:in"
		}
		for j, o := range results {
			q, m := o.rng()
			if overlap(p, n, q, m) {
				return fmt.Sprintf("OVERLAP:%d", j)
			}
		}
		return "dj"
	}
	for i, op := range splitOps(ops) {
		res := lib.Guard(func() string {
			switch op[0] {
			case 'B', 'S':
				nr := &result{isBin: op[0] == 'B'}
				var err error
				var l int
				switch {
				case br == nil && nr.isBin:
					nr.b, l, err = thrift.Binary.ReadBinary(caller[pos:])
				case br == nil:
					nr.s, l, err = thrift.Binary.ReadString(caller[pos:])
				case nr.isBin:
					nr.b, err = br.ReadBinary()
				default:
					nr.s, err = br.ReadString()
				}
				if err != nil {
					return "err " + lib.ErrStr(err)
				}
				pos += l
				nr.want = append([]byte(nil), nr.cur()...)
				s := fmt.Sprintf("ok %s %s", lc(nr.cur()), rel(nr))
				if nr.isBin && spanOn {
					s += fmt.Sprintf(" c%d", cap(nr.b)-len(nr.b))
				}
				results = append(results, nr)
				return s
			case 'A':
				j := atoi(op[1:])
				if j < 0 || j >= len(results) || !results[j].isBin {
					return "skip"
				}
				results[j].b = append(results[j].b, 0x41, 0x42, 0x43)
				results[j].want = append(results[j].want, 0x41, 0x42, 0x43)
				return "app"
			case 'W':
				j := atoi(op[1:])
				if j < 0 || j >= len(results) || !results[j].isBin {
					return "skip"
				}
				for k := range results[j].b {
					results[j].b[k] = 0x77
					results[j].want[k] = 0x77
				}
				return "wr"
			case 'M':
				if mode == "brd" {
					r.Release(nil) // the pool buffers are recycled (poisoned) under the results
					env(i)
				} else {
					all := caller[:cap(caller)]
					for k := range all {
						all[k] = 0xEE
						expect[k] = 0xEE
					}
				}
				return "mut"
			case 'e':
				env(i)
				return "env"
			}
			return "bad-op"
		})
		envBetween(i)
		for j, o := range results {
			if !bytes.Equal(o.cur(), o.want) {
				res += fmt.Sprintf(" VAL%d", j)
				o.want = append([]byte(nil), o.cur()...)
			}
		}
		if caller != nil && !bytes.Equal(caller[:cap(caller)], expect) {
			res += " INPUT"
			copy(expect, caller[:cap(caller)])
		}
		out = append(out, res)
		if strings.HasPrefix(res, "PANIC") {
			return strings.Join(out, " / ")
		}
	}
	out = append(out, "end")
	if br != nil {
		br.Recycle()
	}
	return strings.Join(out, " / ")
}

func runDec(mode, script string, span int, items, ops string) string {
	if span == 2 {
		return decTrace(mode, script, false, items, ops) + " || " + decTrace(mode, script, true, items, ops)
	}
	return decTrace(mode, script, span == 1, items, ops)
}

// ---------------------------------------------------------------- dispatch

func runLine(f []string) (string, bool) {
	f = append([]string{strings.TrimSuffix(f[0], "~")}, f[1:]...)
	switch {
	case len(f) == 5 && (f[0] == "rd" || f[0] == "sd"):
		return runRd(f[0], f[1], f[2], f[3], f[4]), true
	case len(f) == 4 && f[0] == "rsd":
		return runRsd(f[1], f[2], f[3]), true
	case len(f) == 4 && f[0] == "wr":
		return runWr(f[1], atoi(f[2]), f[3]), true
	case len(f) == 6 && f[0] == "dec":
		return runDec(f[1], f[2], atoi(f[3]), f[4], f[5]), true
	}
	return "", false
}

func emit(f ...string) {
	res, ok := runLine(f)
	if !ok {
		return
	}
	f = append([]string{strings.TrimSuffix(f[0], "~")}, f[1:]...)
	em.Count("fam:" + f[0])
	for _, t := range strings.Fields(res) {
		switch {
		case strings.HasPrefix(t, "M") && strings.Contains(t, ":"):
			em.Count("ev:malloc")
		case strings.HasPrefix(t, "F") && len(t) > 1 && t[1] >= '0' && t[1] <= '9':
			em.Count("ev:free")
		case t == "err":
			em.Count(f[0] + ":err")
		case t == "rel", t == "flush":
			em.Count(f[0] + ":" + t)
		}
	}
	if f[0] == "dec" {
		mode := f[1]
		if strings.HasPrefix(mode, "brb") {
			mode = "brb"
		}
		em.Count("dec:mode=" + mode)
		em.Count("dec:span=" + f[3])
		total := 0
		for _, l := range parseItems(f[4]) {
			total += l
			switch {
			case l == 0:
				em.Count("dec:len=0")
			case l < 128:
				em.Count("dec:len<128B")
			case l < 131072:
				em.Count("dec:len=128B..128KiB")
			default:
				em.Count("dec:len>=128KiB")
			}
		}
		if total > 1<<20 {
			em.Count("dec:run>1MiB(wraps-a-span)")
		}
		for _, op := range splitOps(f[5]) {
			em.Count("dec:op=" + op[:1])
		}
	} else {
		kind := f[1]
		if f[0] == "rsd" {
			kind = "-"
		} else if strings.HasPrefix(kind, "b") {
			kind = "bytes"
			if c := atoi(strings.Split(f[1][1:], ":")[len(strings.Split(f[1][1:], ":"))-1]); c > 0 && c&(c-1) == 0 {
				kind = "bytes-pow2cap"
			}
		}
		em.Count(f[0] + ":kind=" + kind)
		if strings.Contains(res, " env") {
			em.Count(f[0] + ":with-env-steps")
		}
	}
	// growths in this history = mallocs - 1 per epoch is not recoverable here; count mallocs per line
	nm := strings.Count(res, " M")
	switch {
	case nm == 0:
		em.Count(f[0] + ":mallocs=0")
	case nm == 1:
		em.Count(f[0] + ":mallocs=1")
	case nm <= 3:
		em.Count(f[0] + ":mallocs=2-3")
	default:
		em.Count(f[0] + ":mallocs>3")
	}
	em.Line(res, append([]string{strings.TrimSuffix(f[0], "~") + modeSuffix}, f[1:]...)...)
}

func replay(lines [][]string, part string) {
	for _, f := range lines {
		if len(f) == 0 || !inPart(strings.TrimSuffix(f[0], "~"), part) {
			continue
		}
		emit(f...)
	}
}

func inPart(fam, part string) bool {
	switch part {
	case "c09":
		return fam != "dec"
	case "c16":
		return fam == "dec"
	}
	return true
}

func main() {
	part := flag.String("part", "all", "c09|c16|all")
	o := lib.ParseOpts()
	em = lib.NewEmitter()
	if o.Replay != "" {
		replay(lib.ReadOpLines(o.Replay), "all")
		em.Close(o.Stats)
		return
	}
	replay(lib.ReadOpLines(o.Corpus), *part)
	if *part != "c16" {
		genC09(o)
	}
	if *part != "c09" {
		genC16(o)
	}
	em.Close(o.Stats)
}

// fam_tth: correspondence harness for TTHeader encode/decode (C06, C10, C03).
//
//	tth enc <wk> <flags> <seq> <proto> <intkvs> <strkvs> <plen>  => err | ok <frame hex> <decode result>
//	tth dec <hex>                                                => <decode result>   (ttheader.DecodeFromBytes)
//	tth decs <hex> <src>                                         => <decode result>   src = b<cap> | script
//	decode result = ok <flags> <seq> <proto> <hl> <pl> <int> <str> <readlen> | err <e> <readlen> | PANIC <class>
//
// A successful decode is rendered only after the memory the frame was read from has been used again (the byte
// slice overwritten; the stream reader drained, released and its pooled buffers taken by other readers / a writer
// that decode and read different bytes): see scribble / recycle. The maps Decode returned are those of the frame
// (C10) / those encoded (C06) - not views of a buffer that goes on living.
package main

import (
	"unsafe"

	"bytes"
	"context"
	"encoding/binary"
	"encoding/hex"
	"errors"
	"flag"
	"fmt"
	"sort"
	"strconv"
	"strings"

	"github.com/cloudwego/gopkg/bufiox"
	"github.com/cloudwego/gopkg/protocol/ttheader"
	"verifharness/lib"
)

var em *lib.Emitter
var ctx = context.Background()

const gdpr = "RPC_TRANSIT_gdpr-token"

// ---------------------------------------------------------------- canonical text

func hexE(s string) string { return hex.EncodeToString([]byte(s)) }

func intMapStr(m map[uint16]string) string {
	if m == nil {
		return "~"
	}
	if len(m) == 0 {
		return "0"
	}
	ks := make([]int, 0, len(m))
	for k := range m {
		ks = append(ks, int(k))
	}
	sort.Ints(ks)
	var sb strings.Builder
	for i, k := range ks {
		if i > 0 {
			sb.WriteByte(',')
		}
		sb.WriteString(strconv.Itoa(k))
		sb.WriteByte('=')
		sb.WriteString(hexE(m[uint16(k)]))
	}
	return sb.String()
}

func strMapStr(m map[string]string) string {
	if m == nil {
		return "~"
	}
	if len(m) == 0 {
		return "0"
	}
	// the pairs as the map holds them now (ranged, never looked up by key: should the bytes of a key have
	// changed under the map, the entry is still shown, with its present key and value)
	type kv struct{ k, v string }
	ps := make([]kv, 0, len(m))
	for k, v := range m {
		ps = append(ps, kv{k, v})
	}
	sort.Slice(ps, func(i, j int) bool {
		if ps[i].k != ps[j].k {
			return ps[i].k < ps[j].k
		}
		return ps[i].v < ps[j].v
	})
	var sb strings.Builder
	for i, p := range ps {
		if i > 0 {
			sb.WriteByte(',')
		}
		sb.WriteString(hexE(p.k))
		sb.WriteByte('=')
		sb.WriteString(hexE(p.v))
	}
	return sb.String()
}

func parseIntMap(t string) map[uint16]string {
	if t == "-" {
		return nil
	}
	m := map[uint16]string{}
	if t == "0" {
		return m
	}
	for _, it := range strings.Split(t, ",") {
		kv := strings.SplitN(it, "=", 2)
		k, _ := strconv.Atoi(kv[0])
		v, _ := hex.DecodeString(kv[1])
		m[uint16(k)] = string(v)
	}
	return m
}

func parseStrMap(t string) map[string]string {
	if t == "-" {
		return nil
	}
	m := map[string]string{}
	if t == "0" {
		return m
	}
	for _, it := range strings.Split(t, ",") {
		kv := strings.SplitN(it, "=", 2)
		k, _ := hex.DecodeString(kv[0])
		v, _ := hex.DecodeString(kv[1])
		m[string(k)] = string(v)
	}
	return m
}

// op text of a map: the nil-ness is part of the op ("-" nil, "0" empty)
func intMapOp(m map[uint16]string) string {
	if m == nil {
		return "-"
	}
	return intMapStr(m)
}
func strMapOp(m map[string]string) string {
	if m == nil {
		return "-"
	}
	return strMapStr(m)
}

func decRes(p ttheader.DecodeParam, err error, rl int) string {
	if err != nil {
		return fmt.Sprintf("err %s %d", lib.ErrStr(err), rl)
	}
	return fmt.Sprintf("ok %d %d %d %d %d %s %s %d", uint16(p.Flags), p.SeqID, uint8(p.ProtocolID),
		p.HeaderLen, p.PayloadLen, intMapStr(p.IntInfo), strMapStr(p.StrInfo), rl)
}

// ---------------------------------------------------------------- running the real code

// Everything a successful decode returns is rendered only AFTER the memory the frame was read from has been
// used again, the way a connection loop does: the caller's byte slice is overwritten (every byte changed),
// a stream-backed reader is drained and released, and other reader instances drawing from the same buffer
// pool decode a different frame and read unrelated bytes. What Decode returned is what the frame said
// (C10, C06), so on code that keeps the statement none of this is visible in the result.

// scribble changes every byte of the caller-owned receive buffer, spare capacity included
func scribble(buf []byte) {
	buf = buf[:cap(buf)]
	for i := range buf {
		buf[i] ^= 0xff
	}
}

func runDecBytes(b []byte, c int) string {
	return lib.Guard(func() string {
		if c < len(b) {
			c = len(b)
		}
		buf := make([]byte, len(b), c)
		copy(buf, b)
		r := bufiox.NewBytesReader(buf)
		p, err := ttheader.Decode(ctx, r)
		rl := r.ReadLen()
		if err == nil {
			r.Release(nil)
			scribble(buf)
		}
		return decRes(p, err, rl)
	})
}

// runDecFromBytes: the exported entry point ttheader.DecodeFromBytes on a slice of exactly these bytes;
// ReadLen is not observable through it, so it is taken from the explicit NewBytesReader+Decode path on a
// copy, and the two paths must report the same result (otherwise the line says DIVERGE and matches nothing).
func runDecFromBytes(b []byte) string {
	explicit := runDecBytes(b, len(b))
	return lib.Guard(func() string {
		bs := make([]byte, len(b))
		copy(bs, b)
		p, err := ttheader.DecodeFromBytes(ctx, bs)
		if !bytes.Equal(bs, b) {
			return "DIVERGE input-modified"
		}
		if err == nil {
			scribble(bs) // the receive buffer is the caller's again: it is refilled
		}
		f := strings.Fields(explicit)
		rl := 0
		if len(f) > 0 {
			rl, _ = strconv.Atoi(f[len(f)-1])
		}
		res := decRes(p, err, rl)
		if res != explicit {
			return "DIVERGE " + res + " | " + explicit
		}
		return res
	})
}

// otherFrame builds a valid frame of exactly n bytes (n = 14 + a declared size that Decode accepted) that
// differs from b in (almost) every byte: the info area is the complement of b's, overlaid with ACL-token
// section headers so that it parses
func otherFrame(b []byte, n int) []byte {
	if n < 18 || (n-14)%4 != 0 || n > len(b) {
		n = 18
	}
	body := make([]byte, n-14)
	for i := range body {
		if 14+i < len(b) {
			body[i] = ^b[14+i]
		} else {
			body[i] = 0xa5
		}
	}
	body[0], body[1] = 0, 0 // protocol id, no transforms
	at := 2
	for len(body)-at >= 3 {
		l := len(body) - at - 3
		if l > 65535 {
			l = 65535
		}
		body[at], body[at+1], body[at+2] = 0x11, byte(l>>8), byte(l)
		at += 3 + l
	}
	for ; at < len(body); at++ {
		body[at] = 0 // padding
	}
	total, flags, seq := uint32(0xa5a5a5a5), 0xa5a5, uint32(0x5a5a5a5a)
	if len(b) >= 12 {
		total, flags, seq = ^binary.BigEndian.Uint32(b), int(^binary.BigEndian.Uint16(b[6:])), ^binary.BigEndian.Uint32(b[8:])
	}
	return mkFrame(total, 0x1000, flags, seq, len(body)/4, body)
}

// drain consumes whatever the reader still delivers (at most max+1 bytes are expected) and releases it:
// with nothing left unread, Release hands the reader's buffers back to the shared pool
func drain(r *bufiox.DefaultReader, max int) {
	r.Release(nil) // the per-message Release: unread bytes move to the front of the buffer
	for i := 0; i <= max; i++ {
		if _, err := r.Next(1); err != nil {
			break
		}
	}
	r.Release(nil)
}

// fillTo pads s with 0xa5 up to the buffer size a reader ends with after reading len(s) bytes
func fillTo(s []byte) []byte {
	n := 4096
	for n < len(s) {
		n *= 2
	}
	out := make([]byte, n)
	for i := copy(out, s); i < n; i++ {
		out[i] = 0xa5
	}
	return out
}

// recycle: the connection is done with this message. Its reader is drained and released; a second reader (another
// connection) decodes a different frame of the same size, a third one reads the complement of the first stream in one
// piece, and a writer mallocs and flushes the same amount: each draws its buffers from the pool the first reader's
// buffers went back to.
func recycle(r *bufiox.DefaultReader, b []byte, rl int) {
	drain(r, len(b))
	f2 := otherFrame(b, rl)
	r2 := bufiox.NewDefaultReader(bytes.NewReader(fillTo(f2)))
	if _, err := ttheader.Decode(ctx, r2); err == nil {
		em.Count("decs-recycle:second-frame-ok")
	} else {
		em.Count("decs-recycle:second-frame-err")
	}
	drain(r2, 2*len(f2)+4096)
	comp := make([]byte, len(b))
	for i := range b {
		comp[i] = ^b[i]
	}
	comp = fillTo(comp)
	r3 := bufiox.NewDefaultReader(bytes.NewReader(comp))
	r3.Next(14)
	r3.Next(len(comp) - 14)
	r3.Release(nil)
	var sink bytes.Buffer
	w := bufiox.NewDefaultWriter(&sink)
	if mb, err := w.Malloc(len(comp)); err == nil {
		copy(mb, comp)
	}
	w.Flush()
}

func runDecScript(b []byte, sc string) string {
	return lib.Guard(func() string {
		s := lib.NewSource(b, lib.ParseScript(sc))
		r := bufiox.NewDefaultReader(s)
		p, err := ttheader.Decode(ctx, r)
		rl := r.ReadLen()
		if err == nil {
			recycle(r, b, rl)
		}
		return decRes(p, err, rl)
	})
}

func runDecSrc(b []byte, src string) string {
	if src[0] == 'b' {
		c, _ := strconv.Atoi(src[1:])
		return runDecBytes(b, c)
	}
	return runDecScript(b, src)
}

type failSink struct{}

func (failSink) Write(p []byte) (int, error) { return 0, errors.New("sink failed") }

func payload(n int) []byte {
	p := make([]byte, n)
	for i := range p {
		p[i] = byte(i*7 + 3)
	}
	return p
}

func runEnc(wk string, param ttheader.EncodeParam, plen int) string {
	return lib.Guard(func() string {
		var frame []byte
		var buf []byte
		var sink bytes.Buffer
		var w bufiox.Writer
		pre := 0 // bytes the writer already holds, unflushed, when Encode is called (kinds B, D: a pipelined second frame)
		switch wk {
		case "b":
			w = bufiox.NewBytesWriter(&buf)
		case "d":
			w = bufiox.NewDefaultWriter(&sink)
		case "B", "D":
			if wk == "B" {
				w = bufiox.NewBytesWriter(&buf)
			} else {
				w = bufiox.NewDefaultWriter(&sink)
			}
			pre = 1 + (int(param.SeqID)&0x7fffffff+len(param.IntInfo)*7+len(param.StrInfo)*13+plen&0xff)%97
			if len(param.StrInfo)%2 == 1 {
				pre += 4096 // beyond the first buffer: the earlier bytes sit in a parked buffer until Flush
			}
			if pre%2 == 0 {
				w.WriteBinary(payload(pre))
			} else {
				pb, _ := w.Malloc(pre)
				copy(pb, payload(pre))
			}
		default: // a writer whose Flush failed before: every later call returns the sticky error
			dw := bufiox.NewDefaultWriter(failSink{})
			dw.Malloc(1)
			dw.Flush()
			w = dw
		}
		tl, err := ttheader.Encode(ctx, param, w)
		if err != nil {
			return "err"
		}
		hl := w.WrittenLen() - pre
		binary.BigEndian.PutUint32(tl, uint32(hl+plen-4)) // the caller's duty, before Flush
		if err := w.Flush(); err != nil {
			return "err"
		}
		if wk == "b" || wk == "B" {
			frame = buf
		} else {
			frame = sink.Bytes()
		}
		if pre > 0 {
			if len(frame) < pre || !bytes.Equal(frame[:pre], payload(pre)) {
				return "ok prefix-clobbered"
			}
			frame = frame[pre:]
		}
		// plen < 0: a total-length field that is smaller than the header (never back-filled, or a hostile
		// frame): no payload follows; PayloadLen must still be total + 4 - HeaderLen = plen
		pn := plen
		if pn < 0 {
			pn = 0
		}
		all := append(append(make([]byte, 0, len(frame)+pn), frame...), payload(pn)...)
		return "ok " + lib.Hex(frame) + " " + runDecFromBytes(all)
	})
}

// countWriter is a bufiox.Writer that keeps the first 64 bytes and only counts the rest: it lets Encode
// run on parameter sets far larger than memory would hold as a frame.
type countWriter struct {
	head    []byte
	n       int
	scratch []byte
}

func (w *countWriter) Malloc(n int) ([]byte, error) {
	var b []byte
	if w.n+n <= cap(w.head) {
		b = w.head[w.n : w.n+n]
	} else {
		if n > len(w.scratch) {
			w.scratch = make([]byte, n)
		}
		b = w.scratch[:n]
	}
	w.n += n
	return b, nil
}
func (w *countWriter) WriteBinary(bs []byte) (int, error) { w.n += len(bs); return len(bs), nil }
func (w *countWriter) WrittenLen() int                    { return w.n }
func (w *countWriter) Flush() error                       { return nil }

// runEncSize: Encode of {StrInfo: {"k": <L zero bytes>}} into a counting writer:
// "err" | "ok <size field> <bytes written>". The value is never touched (untouched zero pages).
func runEncSize(L int) string {
	return lib.Guard(func() string {
		var val string
		if L > 0 {
			big := make([]byte, L)
			val = *(*string)(unsafe.Pointer(&big))
		}
		w := &countWriter{head: make([]byte, 64)}
		_, err := ttheader.Encode(ctx, ttheader.EncodeParam{StrInfo: map[string]string{"k": val}}, w)
		if err != nil {
			return "err"
		}
		return fmt.Sprintf("ok %d %d", binary.BigEndian.Uint16(w.head[12:14]), w.n)
	})
}

func emitEncSize(L int) {
	if part == "dec" {
		return
	}
	em.Count("encsz:" + sizeClass(L))
	em.Line(runEncSize(L), "tth", "encsz", strconv.Itoa(L))
}

func boolStr(b bool) string {
	if b {
		return "true"
	}
	return "false"
}

func runIsStreaming(b []byte) string {
	return lib.Guard(func() string { return boolStr(ttheader.IsStreaming(b)) })
}

func runIsTTHeader(b []byte) string {
	return lib.Guard(func() string { return boolStr(ttheader.IsTTHeader(b)) })
}

func runWriteString(sv []byte) string {
	return lib.Guard(func() string {
		var buf []byte
		w := bufiox.NewBytesWriter(&buf)
		n, err := ttheader.WriteString(string(sv), w)
		if err != nil {
			return "err"
		}
		if err := w.Flush(); err != nil {
			return "err"
		}
		return fmt.Sprintf("ok %d %s", n, lib.Hex(buf))
	})
}

func runWriteUint32(v uint32) string {
	return lib.Guard(func() string {
		var sink bytes.Buffer
		w := bufiox.NewDefaultWriter(&sink)
		if err := ttheader.WriteUint32(v, w); err != nil {
			return "err"
		}
		if err := w.Flush(); err != nil {
			return "err"
		}
		b := sink.Bytes()
		return fmt.Sprintf("ok %s %d %d", lib.Hex(b), ttheader.Bytes2Uint32NoCheck(b), ttheader.Bytes2Uint16NoCheck(b))
	})
}

func emitUtil(op string, b []byte) {
	if part == "dec" {
		return
	}
	var res string
	switch op {
	case "isstream":
		res = runIsStreaming(b)
	case "istth":
		res = runIsTTHeader(b)
	case "wstr":
		res = runWriteString(b)
	}
	em.Count("util-" + op + ":" + strings.Fields(res)[0])
	em.Line(res, "tth", op, lib.Hex(b))
}

// genUtil: the exported helpers of utils.go
func genUtil(o *lib.Opts, r *lib.Rng) {
	n := 300
	if o.Tier == "thorough" {
		n = 20000
	}
	// every length 0..12 with and without magic/flag
	for l := 0; l <= 12; l++ {
		for k := 0; k < 4; k++ {
			b := r.Bytes(l)
			if k&1 != 0 && l > 5 {
				b[4], b[5] = 0x10, 0
			}
			if l > 7 {
				if k&2 != 0 {
					b[7] |= 2
				} else {
					b[7] &^= 2
				}
			}
			emitUtil("isstream", b)
			emitUtil("istth", b)
		}
	}
	// every single flag bit, their complements, and the magic off by one bit
	for bit := 0; bit < 16; bit++ {
		for _, f := range []int{1 << bit, 0xffff &^ (1 << bit)} {
			emitUtil("isstream", mkFrame(uint32(r.U64()), 0x1000, f, 1, 1, []byte{0, 0, 0, 0}))
		}
		emitUtil("isstream", mkFrame(0, 0x1000^(1<<bit), 2, 1, 1, nil))
		emitUtil("istth", mkFrame(0, 0x1000^(1<<bit), 2, 1, 1, nil))
	}
	// frames produced by Encode, with and without the streaming flag
	for i := 0; i < n/3; i++ {
		p := rparam(r, 3, 6)
		p.Flags = ttheader.HeaderFlags(r.Pick(0, 1, 2, 3, 8, 0x8002, 0xfffd, 0xffff, r.Intn(65536)))
		if fr, err := ttheader.EncodeToBytes(ctx, p); err == nil {
			binary.BigEndian.PutUint32(fr, uint32(len(fr)-4)) // the length field holds whatever fresh memory held
			emitUtil("isstream", append(fr, r.Bytes(r.Intn(5))...))
			emitUtil("istth", fr)
		}
	}
	for i := 0; i < n; i++ {
		b := r.Bytes(r.Intn(24))
		if len(b) > 5 && r.Chance(3, 4) {
			b[4], b[5] = 0x10, 0
		}
		emitUtil("isstream", b)
	}
	// WriteString / WriteUint32
	for _, l := range []int{0, 1, 2, 3, 4, 255, 256, 257, 4095, 4096, 4097, 65535, 65536, 70000} {
		emitUtil("wstr", r.Bytes(l))
	}
	for i := 0; i < n/3; i++ {
		emitUtil("wstr", r.Bytes(r.Intn(40)))
	}
	for _, v := range []uint32{0, 1, 0xff, 0x100, 0xffff, 0x10000, 0x7fffffff, 0x80000000, 0xffffffff, 0x01020304} {
		em.Line(runWriteUint32(v), "tth", "wu32", strconv.FormatUint(uint64(v), 10))
	}
	for i := 0; i < n/6; i++ {
		v := uint32(r.U64())
		em.Line(runWriteUint32(v), "tth", "wu32", strconv.FormatUint(uint64(v), 10))
	}
}

// ---------------------------------------------------------------- emitting

var part string

func sizeClass(n int) string {
	switch {
	case n < 16:
		return "<16"
	case n < 256:
		return "<256"
	case n < 4096:
		return "<4096"
	case n < 65536:
		return "<65536"
	}
	return ">=65536"
}

func firstTwo(res string) string {
	f := strings.Fields(res)
	if len(f) == 0 {
		return ""
	}
	if f[0] == "err" && len(f) > 1 {
		return "err " + f[1]
	}
	return f[0]
}

func emitEnc(class, wk string, p ttheader.EncodeParam, plen int) {
	if part == "dec" {
		return
	}
	em.Count("enc-class:" + class)
	em.Count("enc-writer:" + wk)
	em.Count(fmt.Sprintf("enc-int-entries:%s", sizeClass(len(p.IntInfo))))
	em.Count(fmt.Sprintf("enc-str-entries:%s", sizeClass(len(p.StrInfo))))
	res := runEnc(wk, p, plen)
	f := strings.Fields(res)
	if f[0] == "ok" {
		em.Count("enc:ok frame" + sizeClass(len(f[1])/2) + " pad-residue:" + strconv.Itoa(infoRaw(p)%4))
		if len(f) > 2 {
			em.Count("enc-roundtrip:" + f[2])
		}
	} else {
		em.Count("enc:" + f[0])
	}
	em.Line(res, "tth", "enc", wk, strconv.Itoa(int(p.Flags)), strconv.Itoa(int(p.SeqID)),
		strconv.Itoa(int(p.ProtocolID)), intMapOp(p.IntInfo), strMapOp(p.StrInfo), strconv.Itoa(plen))
	// the same parameters into a writer that already holds unflushed bytes (a pipelined frame): the frame is the same
	encCount++
	if (wk == "b" || wk == "d") && encCount%3 == 0 && f[0] == "ok" && len(f[1]) < 40000 {
		emitEnc(class+":pipelined", strings.ToUpper(wk), p, plen)
	}
}

var encCount int

// unpadded info size of a parameter set (harness-side arithmetic, for statistics and generators)
func infoRaw(p ttheader.EncodeParam) int {
	n := 2
	ns := len(p.StrInfo)
	if t, ok := p.StrInfo[gdpr]; ok {
		n += 3 + len(t)
		ns--
	}
	if ns > 0 {
		n += 3
		for k, v := range p.StrInfo {
			if k != gdpr {
				n += 4 + len(k) + len(v)
			}
		}
	}
	if len(p.IntInfo) > 0 {
		n += 3
		for _, v := range p.IntInfo {
			n += 4 + len(v)
		}
	}
	return n
}

func emitDec(r *lib.Rng, class string, b []byte, streams int) {
	if part == "enc" {
		return
	}
	em.Count("dec-class:" + class)
	em.Count("dec-len:" + sizeClass(len(b)))
	res := runDecFromBytes(b)
	em.Count("dec:" + firstTwo(res))
	hx := lib.Hex(b)
	em.Line(res, "tth", "dec", hx)
	for i := 0; i < streams; i++ {
		var src string
		switch k := r.Intn(3); {
		case k == 0:
			c := len(b) + r.Pick(0, 1, 7, 100, 70000)
			src = "b" + strconv.Itoa(c)
		case len(b) > 3000: // the reader model is quadratic in the number of reads: big chunks only
			src = chunkScript(r, len(b)).String()
		case k == 1:
			src = benignScript(r, len(b)).String()
		default:
			src = lib.GenScript(r, len(b)).String()
		}
		res = runDecSrc(b, src)
		em.Count("decs:" + firstTwo(res))
		em.Line(res, "tth", "decs", hx, src)
	}
}

// chunkScript delivers a long stream in at most ~70 reads (chunks of 1000..9000 bytes, or everything that fits),
// sometimes ending early or with an error together with the last data
func chunkScript(r *lib.Rng, total int) lib.Script {
	var s lib.Script
	left := total
	for left > 0 {
		k := r.Pick(1000, 4096, 4097, 9000, 1<<20)
		if k > left {
			k = left
		}
		left -= k
		s = append(s, lib.Resp{K: k, Err: -1})
	}
	switch r.Intn(4) {
	case 0:
		s[len(s)-1].Err = r.Pick(0, 2)
	case 1:
		s = s[:r.Intn(len(s))]
	}
	return s
}

func benignScript(r *lib.Rng, total int) lib.Script {
	var s lib.Script
	switch r.Intn(3) {
	case 0:
		for i := 0; i < total; i++ {
			s = append(s, lib.Resp{K: 1, Err: -1})
		}
	case 1:
		for i := 0; i < total; i++ {
			s = append(s, lib.Resp{K: 1 << 20, Err: -1})
		}
	default:
		left := total
		for left > 0 {
			k := r.Pick(1, 2, 13, 14, 15, 4096)
			if k > left {
				k = left
			}
			s = append(s, lib.Resp{K: k, Err: -1})
			left -= k
		}
		for i := 0; i < 3; i++ {
			s = append(s, lib.Resp{K: 1 << 20, Err: -1})
		}
	}
	return s
}

// ---------------------------------------------------------------- frame builder (independent of Encode)

func u16(v int) []byte { return []byte{byte(v >> 8), byte(v)} }
func str2(s []byte) []byte {
	return append(u16(len(s)), s...)
}

type kvS struct{ k, v []byte }
type kvI struct {
	k int
	v []byte
}

func secStr(cnt int, kvs []kvS) []byte {
	b := append([]byte{0x01}, u16(cnt)...)
	for _, kv := range kvs {
		b = append(b, str2(kv.k)...)
		b = append(b, str2(kv.v)...)
	}
	return b
}
func secInt(cnt int, kvs []kvI) []byte {
	b := append([]byte{0x10}, u16(cnt)...)
	for _, kv := range kvs {
		b = append(b, u16(kv.k)...)
		b = append(b, str2(kv.v)...)
	}
	return b
}
func secACL(tok []byte) []byte { return append([]byte{0x11}, str2(tok)...) }

func cat(parts ...[]byte) []byte {
	var b []byte
	for _, p := range parts {
		b = append(b, p...)
	}
	return b
}

func pad4(info []byte) []byte {
	for len(info)%4 != 0 {
		info = append(info, 0)
	}
	return info
}

// mkFrame assembles the 14-byte meta block and the body as given (no consistency enforced)
func mkFrame(total uint32, magic int, flags int, seq uint32, sf int, body []byte) []byte {
	b := make([]byte, 14, 14+len(body))
	binary.BigEndian.PutUint32(b[0:], total)
	binary.BigEndian.PutUint16(b[4:], uint16(magic))
	binary.BigEndian.PutUint16(b[6:], uint16(flags))
	binary.BigEndian.PutUint32(b[8:], seq)
	binary.BigEndian.PutUint16(b[12:], uint16(sf))
	return append(b, body...)
}

// valid frame around an info area (padded to 4)
func frameOf(r *lib.Rng, info []byte) []byte {
	info = pad4(info)
	return mkFrame(uint32(r.U64()>>40), 0x1000, r.Intn(65536), uint32(r.U64()), len(info)/4, info)
}

func rstr(r *lib.Rng, max int) []byte { return r.Bytes(r.Intn(max + 1)) }

func randSec(r *lib.Rng, kind int) []byte {
	switch kind {
	case 0:
		return make([]byte, r.Pick(1, 1, 2, 3, 5))
	case 1:
		n := r.Pick(0, 1, 1, 2, 3)
		var kvs []kvS
		for i := 0; i < n; i++ {
			k := rstr(r, 4)
			if r.Chance(1, 8) {
				k = []byte(gdpr)
			}
			if r.Chance(1, 4) {
				k = []byte{'k', byte('0' + r.Intn(3))}
			}
			kvs = append(kvs, kvS{k, rstr(r, 6)})
		}
		return secStr(n, kvs)
	case 2:
		n := r.Pick(0, 1, 1, 2, 3)
		var kvs []kvI
		for i := 0; i < n; i++ {
			kvs = append(kvs, kvI{r.Pick(0, 1, 2, 3, 0xffff, r.Intn(65536)), rstr(r, 6)})
		}
		return secInt(n, kvs)
	default:
		return secACL(rstr(r, 8))
	}
}

// ---------------------------------------------------------------- generators: encode

func rparam(r *lib.Rng, maxEntries, maxStr int) ttheader.EncodeParam {
	p := ttheader.EncodeParam{
		Flags:      ttheader.HeaderFlags(r.Pick(0, 0, 1, 2, 8, 0x10, 0x7fff, 0x8000, 0xffff, r.Intn(65536))),
		SeqID:      int32(r.Pick(0, 1, -1, 0x7fffffff, -0x80000000, int(int32(r.U64())))),
		ProtocolID: ttheader.ProtocolID(r.Pick(0, 0, 3, 4, 0x10, 0x11)),
	}
	ni := r.Pick(0, 0, 1, 2, 3, r.Intn(maxEntries+1))
	ns := r.Pick(0, 0, 1, 2, 3, r.Intn(maxEntries+1))
	switch r.Intn(4) {
	case 0: // nil maps stay nil
	case 1:
		p.IntInfo = map[uint16]string{}
	case 2:
		p.StrInfo = map[string]string{}
	default:
		p.IntInfo, p.StrInfo = map[uint16]string{}, map[string]string{}
	}
	if ni > 0 {
		p.IntInfo = map[uint16]string{}
		for i := 0; i < ni; i++ {
			p.IntInfo[uint16(r.Pick(0, 1, 0xffff, r.Intn(65536), r.Intn(16)))] = string(rstr(r, maxStr))
		}
	}
	if ns > 0 {
		p.StrInfo = map[string]string{}
		for i := 0; i < ns; i++ {
			k := rstr(r, maxStr)
			if r.Chance(1, 6) {
				k = []byte(gdpr)
			}
			p.StrInfo[string(k)] = string(rstr(r, maxStr))
		}
	}
	return p
}

func genEnc(o *lib.Opts, r *lib.Rng) {
	n := o.N
	if n == 0 {
		n = 1000
		if o.Tier == "thorough" {
			n = 60000
		}
	}
	wks := []string{"b", "d"}
	// 1. every protocol id (unsupported ones encode, and are rejected by the decoder)
	for id := 0; id < 256; id++ {
		p := rparam(r, 2, 3)
		p.ProtocolID = ttheader.ProtocolID(id)
		emitEnc("proto", wks[id%2], p, id%5)
	}
	// 2. flags and sequence-id boundaries
	for _, f := range []int{0, 1, 2, 3, 8, 0x10, 0xff, 0x100, 0x7fff, 0x8000, 0xfffe, 0xffff} {
		for _, s := range []int32{0, 1, -1, 0x7fffffff, -0x80000000, 0x01020304, -2} {
			p := rparam(r, 1, 2)
			p.Flags, p.SeqID = ttheader.HeaderFlags(f), s
			emitEnc("flags-seq", "b", p, 0)
		}
	}
	// 3. every padding residue with every combination of sections
	for res := 0; res < 8; res++ {
		for mask := 0; mask < 8; mask++ {
			p := ttheader.EncodeParam{}
			if mask&1 != 0 {
				p.IntInfo = map[uint16]string{7: string(r.Bytes(res))}
			}
			if mask&2 != 0 {
				p.StrInfo = map[string]string{"k": string(r.Bytes(res))}
			}
			if mask&4 != 0 {
				if p.StrInfo == nil {
					p.StrInfo = map[string]string{}
				}
				p.StrInfo[gdpr] = string(r.Bytes(res))
			}
			emitEnc("residue", wks[res%2], p, res)
		}
	}
	// 4. info sizes 65520..65544 through each kind of section (65536 must round-trip, beyond must fail)
	for target := 65520; target <= 65544; target++ {
		if o.Tier != "thorough" && (target < 65530 || target > 65540) {
			continue
		}
		// one string entry: 2 + 3 + (2+1) + (2+L)
		emitEnc("limit-str", "b", ttheader.EncodeParam{StrInfo: map[string]string{"k": string(r.Bytes(target - 10))}}, r.Pick(0, 1, 100))
		// one int entry: 2 + 3 + 2 + (2+L)
		emitEnc("limit-int", "d", ttheader.EncodeParam{IntInfo: map[uint16]string{9: string(make([]byte, target-9))}}, 0)
		// ACL token only: 2 + 1 + (2+L)
		emitEnc("limit-acl", "b", ttheader.EncodeParam{StrInfo: map[string]string{gdpr: string(make([]byte, target-5))}}, 3)
	}
	// many entries reaching the limit exactly: 2 + 3 + sum(2+2+len) = target
	for _, target := range []int{65533, 65536, 65537} {
		cnt := 150
		if o.Tier == "thorough" {
			cnt = 1000
		}
		m := map[uint16]string{}
		left := target - 5 - 4*cnt
		for i := 0; i < cnt; i++ {
			l := left / (cnt - i)
			left -= l
			m[uint16(i*61)] = string(r.Bytes(l))
		}
		emitEnc("limit-many", "b", ttheader.EncodeParam{IntInfo: m}, 2)
	}
	// 5. 64 KiB-scale strings and counts: the uint16 truncations must end in the size error
	for _, L := range []int{65535, 65536, 65537, 70000, 131072 + 5} {
		if o.Tier != "thorough" && (L == 65537 || L > 70000) {
			continue
		}
		emitEnc("huge-val", "b", ttheader.EncodeParam{StrInfo: map[string]string{"k": string(make([]byte, L))}}, 0)
		emitEnc("huge-key", "d", ttheader.EncodeParam{StrInfo: map[string]string{string(r.Bytes(L)): "v"}}, 0)
		emitEnc("huge-int", "b", ttheader.EncodeParam{IntInfo: map[uint16]string{1: string(make([]byte, L))}}, 0)
		emitEnc("huge-acl", "b", ttheader.EncodeParam{StrInfo: map[string]string{gdpr: string(make([]byte, L))}}, 0)
	}
	{
		m := map[uint16]string{}
		for i := 0; i < 65536; i++ {
			m[uint16(i)] = ""
		}
		emitEnc("huge-count", "b", ttheader.EncodeParam{IntInfo: m}, 0)
		s := map[string]string{gdpr: "t"}
		for i := 0; i < 65536; i++ { // 65537 entries, 65536 after the token is taken out: count truncates to 0
			s[strconv.Itoa(i)] = ""
		}
		emitEnc("huge-count", "b", ttheader.EncodeParam{StrInfo: s}, 0)
		delete(s, gdpr) // exactly 65536 string entries, no token: uint16(len) would be 0
		emitEnc("huge-count", "d", ttheader.EncodeParam{StrInfo: s}, 0)
		// one more entry than the limit admits (2+3+16383*4 > 65536: size error); thorough: a 4000-entry round trip.
		// (16382 entries, the largest admissible count, round-trips on the real code and in the model — replayed
		// once, see notes/C06.md; the List-based driver needs 60 s for it, so it is not generated.)
		for _, cnt := range []int{4000, 16383} {
			if o.Tier != "thorough" && cnt == 4000 {
				continue
			}
			mi := map[uint16]string{}
			for i := 0; i < cnt; i++ {
				mi[uint16(i*4)] = ""
			}
			emitEnc("max-count", "b", ttheader.EncodeParam{IntInfo: mi}, 1)
		}
	}
	// 5b. sizes only (counting writer): around the limit and well beyond what a frame in memory would allow
	for _, L := range []int{0, 1, 65525, 65526, 65527, 65535, 65536, 1 << 20, 1<<24 + 3} {
		emitEncSize(L)
	}
	// 6. payload lengths
	for _, pl := range []int{0, 1, 2, 3, 4, 5, 100, 4095, 4096, 4097, 70000} {
		emitEnc("payload", wks[pl%2], rparam(r, 3, 5), pl)
		if pl <= 12 { // total-length field below the header length (hl >= 16, so hl+plen-4 >= 0)
			emitEnc("payload-negative", wks[pl%2], rparam(r, 3, 5), -pl)
		}
	}
	// 7. a writer that already failed
	for i := 0; i < 4; i++ {
		emitEnc("broken-writer", "x", rparam(r, 3, 5), 0)
	}
	// 8. random parameter sets
	for i := 0; i < n; i++ {
		maxE := r.Pick(3, 3, 8, 8, 40)
		maxS := r.Pick(0, 2, 8, 8, 30, 300)
		if i%200 == 0 {
			maxE, maxS = 600, 20
		}
		if i%300 == 7 {
			maxE, maxS = 3, 30000
		}
		emitEnc("random", wks[r.Intn(2)], rparam(r, maxE, maxS), r.Pick(0, 0, 1, 7, 300, -1, -12))
	}
}

// ---------------------------------------------------------------- generators: decode

var boundary = []byte{0x00, 0x01, 0x02, 0x10, 0x11, 0x7f, 0x80, 0xfe, 0xff}

func genDec(o *lib.Opts, r *lib.Rng) {
	thorough := o.Tier == "thorough"
	n := o.N
	if n == 0 {
		n = 300
		if thorough {
			n = 15000
		}
	}
	smallInfo := func() []byte {
		return cat([]byte{0, 0}, secStr(1, []kvS{{[]byte("a"), []byte("bc")}}), secInt(1, []kvI{{5, []byte("x")}}))
	}
	// 1. the header-size field: every interesting value (thorough: all 65536), with a short body, a body of
	//    exactly the declared size, and one byte less
	sfs := []int{0, 1, 2, 3, 4, 5, 0x3ffe, 0x3fff, 0x4000, 0x4001, 0x4002, 0x7fff, 0x8000, 0x8001, 0xc000, 0xffff}
	for i := 0; i < 40; i++ {
		sfs = append(sfs, r.Intn(65536))
	}
	if thorough {
		sfs = sfs[:0]
		for v := 0; v < 65536; v++ {
			sfs = append(sfs, v)
		}
	}
	for _, sf := range sfs {
		info := pad4(smallInfo())
		emitDec(r, "sizefield-shortbody", mkFrame(20, 0x1000, 0, 1, sf, info), 0)
		full := sf <= 5 || (sf >= 0x3ffe && sf <= 0x4002) || sf == 0xffff || sf == 0x8000 || sf == 0x7fff || r.Chance(1, 40)
		if thorough {
			full = full || sf%512 == 0
		}
		if !full {
			continue
		}
		// a body of exactly the declared size: one ACL section carrying the bulk, so that every byte is structural
		decl := 4 * sf
		body := []byte{0, 0}
		if decl >= 16 {
			rest := decl - 2 - 3
			for rest > 0 {
				l := rest
				if l > 65535+3 {
					l = 65535 + 3
				}
				if l < 3 {
					body = append(body, make([]byte, l)...)
					break
				}
				body = append(body, secACL(make([]byte, l-3))...)
				rest -= l
				if rest > 0 && rest < 3 {
					body = append(body, make([]byte, rest)...)
					rest = 0
				}
			}
			body = append(body, 0, 0, 0)
			body = body[:decl]
		} else {
			body = make([]byte, decl)
		}
		emitDec(r, "sizefield-fullbody", mkFrame(uint32(decl+10+r.Intn(100)), 0x1000, 3, 9, sf, body), 1)
		if len(body) > 0 {
			emitDec(r, "sizefield-body-1", mkFrame(100, 0x1000, 3, 9, sf, body[:len(body)-1]), 0)
		}
		emitDec(r, "sizefield-body+5", mkFrame(100, 0x1000, 3, 9, sf, append(append([]byte(nil), body...), 1, 2, 3, 4, 5)), 0)
	}
	// 2. the flags field (thorough: all 65536) and the sequence id; total length boundaries
	nf := 200
	if thorough {
		nf = 65536
	}
	for i := 0; i < nf; i++ {
		f := i
		if !thorough {
			f = r.Pick(0, 1, 2, 0x7fff, 0x8000, 0xffff, r.Intn(65536))
		}
		info := pad4(smallInfo())
		emitDec(r, "flags", mkFrame(uint32(r.U64()), 0x1000, f, uint32(r.U64()), len(info)/4, info), 0)
	}
	for _, tot := range []uint32{0, 1, 9, 10, 13, 14, 0x7fffffff, 0x80000000, 0xffffffff} {
		for _, seq := range []uint32{0, 1, 0x7fffffff, 0x80000000, 0xffffffff} {
			info := pad4(smallInfo())
			emitDec(r, "total-seq", mkFrame(tot, 0x1000, 0, seq, len(info)/4, info), 0)
		}
	}
	// 3. magic
	for hi := 0; hi < 256; hi++ {
		info := pad4(smallInfo())
		emitDec(r, "magic", mkFrame(30, hi<<8, 0, 1, len(info)/4, info), 0)
		emitDec(r, "magic", mkFrame(30, 0x1000|hi, 0, 1, len(info)/4, info), 0)
	}
	// 4. every protocol id, every info id (first position and after a section), transform counts
	for v := 0; v < 256; v++ {
		emitDec(r, "proto", frameOf(r, cat([]byte{byte(v), 0}, secInt(1, []kvI{{1, []byte("v")}}))), 0)
		emitDec(r, "infoid-first", frameOf(r, cat([]byte{0, 0, byte(v)}, str2([]byte("ab")), []byte{0, 0})), 0)
		emitDec(r, "infoid-later", frameOf(r, cat([]byte{0, 0}, secACL([]byte("t")), []byte{byte(v), 0, 0, 0, 0, 0})), 0)
		// transform count v against areas of several sizes
		for _, area := range []int{2, 6, 10, 254, 258, 262} {
			if v > area+4 && v != 255 {
				continue
			}
			body := make([]byte, area)
			body[1] = byte(v)
			for i := 2; i < area; i++ {
				body[i] = byte(r.Pick(0, 0, 0, 1, 0x10, 0x11, 0xff))
			}
			emitDec(r, "transforms", mkFrame(50, 0x1000, 0, 1, area/4+(area%4+3)/4, pad4(body)), 0)
		}
	}
	// 5. section orders and repeats: all sequences of up to 4 sections over {pad, str, int, acl}
	var seqs func(prefix [][]byte, depth int)
	seqs = func(prefix [][]byte, depth int) {
		emitDec(r, "section-orders", frameOf(r, cat(append([][]byte{{0, 0}}, prefix...)...)), 0)
		if depth == 0 {
			return
		}
		for k := 0; k < 4; k++ {
			seqs(append(append([][]byte(nil), prefix...), randSec(r, k)), depth-1)
		}
	}
	depth := 3
	if thorough {
		depth = 5
	}
	seqs(nil, depth)
	// duplicate keys across and inside sections, token under its own key, kvSize 0, count mismatch
	for i := 0; i < 60; i++ {
		k := []byte{'k'}
		parts := [][]byte{{byte(r.Pick(0, 3, 4)), 0}}
		for j := r.Range(2, 5); j > 0; j-- {
			switch r.Intn(6) {
			case 0:
				parts = append(parts, secStr(2, []kvS{{k, rstr(r, 3)}, {k, rstr(r, 3)}}))
			case 1:
				parts = append(parts, secStr(1, []kvS{{[]byte(gdpr), rstr(r, 3)}}))
			case 2:
				parts = append(parts, secACL(rstr(r, 3)))
			case 3:
				parts = append(parts, secInt(2, []kvI{{1, rstr(r, 3)}, {1, rstr(r, 3)}}))
			case 4:
				parts = append(parts, secStr(0, nil), secInt(0, nil))
			default:
				parts = append(parts, make([]byte, r.Intn(4)))
			}
		}
		emitDec(r, "duplicates", frameOf(r, cat(parts...)), i%4/3)
	}
	for cnt := 0; cnt < 5; cnt++ { // declared entry count against two entries present
		emitDec(r, "count-mismatch", frameOf(r, cat([]byte{0, 0}, secStr(cnt, []kvS{{[]byte("a"), []byte("b")}, {[]byte("c"), []byte("d")}}))), 0)
		emitDec(r, "count-mismatch", frameOf(r, cat([]byte{0, 0}, secInt(cnt, []kvI{{1, []byte("b")}, {2, []byte("d")}}))), 0)
	}
	emitDec(r, "count-mismatch", frameOf(r, cat([]byte{0, 0}, secInt(0xffff, []kvI{{1, []byte("b")}}))), 0)
	// 6. random valid frames: every cut point, lowered/raised size field, structural perturbations, splices
	for i := 0; i < n; i++ {
		parts := [][]byte{{byte(r.Pick(0, 0, 3, 4, 0x10, 0x11)), 0}}
		for j := r.Intn(5); j > 0; j-- {
			if r.Chance(1, 3) {
				parts = append(parts, make([]byte, r.Intn(4))) // interleaved padding
			}
			parts = append(parts, randSec(r, r.Range(1, 3)))
		}
		info := pad4(cat(parts...))
		fr := frameOf(r, info)
		extra := r.Bytes(r.Pick(0, 0, 1, 5, 40))
		emitDec(r, "valid", append(append([]byte(nil), fr...), extra...), 1)
		// every cut point of the frame (at most 48 of them)
		step := 1
		if len(fr) > 48 {
			step = len(fr)/48 + 1
		}
		for c := 0; c < len(fr); c += step {
			emitDec(r, "cut", fr[:c], c%7/6)
		}
		// declared size lowered: the area ends inside a section at every 4-byte boundary
		for sf := 0; sf < len(info)/4; sf++ {
			m := append([]byte(nil), fr...)
			binary.BigEndian.PutUint16(m[12:], uint16(sf))
			emitDec(r, "size-lowered", m, 0)
		}
		{
			m := append([]byte(nil), fr...)
			binary.BigEndian.PutUint16(m[12:], uint16(len(info)/4+r.Pick(1, 2, 100)))
			emitDec(r, "size-raised", append(m, extra...), 0)
		}
		// each byte of the info area replaced by boundary values (a sample), and +-1
		for k := 0; k < 10; k++ {
			m := append([]byte(nil), fr...)
			pos := 12 + r.Intn(len(m)-12)
			switch r.Intn(3) {
			case 0:
				m[pos] = boundary[r.Intn(len(boundary))]
			case 1:
				m[pos]++
			default:
				m[pos]--
			}
			emitDec(r, "perturb", m, k/9)
		}
		if i%4 == 0 { // splice
			other := frameOf(r, cat([]byte{0, 0}, randSec(r, r.Range(1, 3))))
			c := 14 + r.Intn(len(fr)-13)
			m := append(append([]byte(nil), fr[:c]...), other[r.Intn(len(other)):]...)
			emitDec(r, "splice", m, 0)
		}
	}
	// 7. short and random inputs
	for l := 0; l <= 20; l++ {
		emitDec(r, "short-random", r.Bytes(l), 1)
		b := r.Bytes(l)
		if l > 5 {
			b[4], b[5] = 0x10, 0
		}
		emitDec(r, "short-magic", b, 0)
	}
	for i := 0; i < n; i++ {
		b := r.Bytes(14 + r.Intn(60))
		b[4], b[5] = 0x10, 0
		b[12], b[13] = 0, byte(r.Intn(12))
		if len(b) > 15 {
			b[14] = byte(r.Pick(0, 0, 3, 4, 0x10, 0x11, r.Intn(256)))
			b[15] = byte(r.Pick(0, 0, 0, 1, 2, r.Intn(256)))
		}
		for j := 16; j < len(b); j++ { // a grammar-relevant alphabet most of the time
			if r.Chance(3, 4) {
				b[j] = byte(r.Pick(0, 0, 0, 1, 1, 2, 3, 0x10, 0x11, 'a'))
			}
		}
		emitDec(r, "random-structured", b, i%5/4)
	}
	// 8. large frames: long strings straddling the reader's buffer sizes, many entries, long padding runs
	for _, L := range []int{4070, 4096, 8192, 20000, 65535 - 40} {
		if !thorough && L != 4096 && L != 65535-40 {
			continue
		}
		info := cat([]byte{0, 0}, secStr(1, []kvS{{[]byte("key"), r.Bytes(L)}}), secInt(1, []kvI{{2, []byte("v")}}))
		fr := frameOf(r, info)
		emitDec(r, "large", append(fr, r.Bytes(10)...), 2)
		emitDec(r, "large-cut", fr[:len(fr)-r.Range(1, 20)], 1)
	}
	{
		var kvs []kvI
		cnt := 2000
		for i := 0; i < cnt; i++ {
			kvs = append(kvs, kvI{r.Intn(65536), rstr(r, 3)})
		}
		emitDec(r, "many-entries", frameOf(r, cat([]byte{0, 0}, secInt(cnt, kvs))), 1)
		emitDec(r, "long-padding", frameOf(r, cat([]byte{0, 0}, make([]byte, 3000), secACL([]byte("t")), make([]byte, 1500))), 0)
	}
}

// ---------------------------------------------------------------- replay / main

func replay(lines [][]string) {
	for _, f := range lines {
		if len(f) < 3 || f[0] != "tth" {
			continue
		}
		switch {
		case f[1] == "enc" && len(f) == 9:
			fl, _ := strconv.Atoi(f[3])
			sq, _ := strconv.Atoi(f[4])
			pr, _ := strconv.Atoi(f[5])
			pl, _ := strconv.Atoi(f[8])
			p := ttheader.EncodeParam{Flags: ttheader.HeaderFlags(fl), SeqID: int32(sq), ProtocolID: ttheader.ProtocolID(pr),
				IntInfo: parseIntMap(f[6]), StrInfo: parseStrMap(f[7])}
			em.Line(runEnc(f[2], p, pl), f...)
		case f[1] == "encsz" && len(f) == 3:
			L, _ := strconv.Atoi(f[2])
			em.Line(runEncSize(L), f...)
		case (f[1] == "isstream" || f[1] == "istth" || f[1] == "wstr") && len(f) == 3:
			b := lib.UnHex(f[2])
			switch f[1] {
			case "isstream":
				em.Line(runIsStreaming(b), f...)
			case "istth":
				em.Line(runIsTTHeader(b), f...)
			default:
				em.Line(runWriteString(b), f...)
			}
		case f[1] == "wu32" && len(f) == 3:
			v, _ := strconv.ParseUint(f[2], 10, 32)
			em.Line(runWriteUint32(uint32(v)), f...)
		case f[1] == "dec" && len(f) == 3:
			b := lib.UnHex(f[2])
			em.Line(runDecFromBytes(b), f...)
		case f[1] == "decs" && len(f) == 4:
			em.Line(runDecSrc(lib.UnHex(f[2]), f[3]), f...)
		}
	}
}

func main() {
	flag.StringVar(&part, "part", "all", "enc|dec|all")
	o := lib.ParseOpts()
	em = lib.NewEmitter()
	if o.Replay != "" {
		replay(lib.ReadOpLines(o.Replay))
		em.Close(o.Stats)
		return
	}
	replay(lib.ReadOpLines(o.Corpus))
	r := lib.NewRng(o.Seed)
	genEnc(o, r)
	if part != "dec" {
		genUtil(o, lib.NewRng(o.Seed+0x5151))
	}
	genDec(o, lib.NewRng(o.Seed+0x7711))
	em.Close(o.Stats)
}

// fam_fc: correspondence harness for the shipped FastCodec structs (C11), the no-copy write path (C15)
// and FastRead on arbitrary bytes (C03).
//
// Every case is one op line (see lean/Drv/Fc.lean for the protocol); the generator only builds op lines
// and runOp executes them on the real code, so -replay re-runs exactly what a generated run did.
package main

import (
	"encoding/binary"
	"fmt"
	"sort"
	"strconv"
	"strings"

	"github.com/cloudwego/gopkg/protocol/thrift"
	"github.com/cloudwego/gopkg/protocol/thrift/base"
	"verifharness/lib"
)

// thr only clusters the generated lengths around the library's (unexported) nocopyWriteThreshold;
// it is never used as an oracle (the driver takes the value from the regenerated Facts).
const thr = 4096

// maxMapSize: FastRead does make(map, sz) with the declared size; larger declarations are not replayed.
const maxMapSize = 10000

const fillByte = 0xa5

var em *lib.Emitter

// ---------------------------------------------------------------- values and tokens

// V is a value of one of the three structs.
type V struct {
	St   string // base | baseresp | appex
	Nil  bool   // nil receiver
	S    [3]string
	Code int32
	E    map[string]string
}

func hexS(s string) string { return lib.Hex([]byte(s)) }

func mapTok(m map[string]string) string {
	if m == nil {
		return "nil"
	}
	if len(m) == 0 {
		return "{}"
	}
	es := make([]string, 0, len(m))
	for k, v := range m {
		es = append(es, hexS(k)+":"+hexS(v))
	}
	sort.Strings(es)
	return strings.Join(es, ",")
}

func (v *V) Tok() string {
	if v.Nil {
		return "nil"
	}
	switch v.St {
	case "base":
		return hexS(v.S[0]) + "/" + hexS(v.S[1]) + "/" + hexS(v.S[2]) + "/" + mapTok(v.E)
	case "baseresp":
		return hexS(v.S[0]) + "/" + strconv.Itoa(int(v.Code)) + "/" + mapTok(v.E)
	default:
		return strconv.Itoa(int(v.Code)) + "/" + hexS(v.S[0])
	}
}

func unhexS(s string) (string, bool) {
	if s == "-" {
		return "", true
	}
	if len(s)%2 != 0 {
		return "", false
	}
	for _, c := range s {
		if !(c >= '0' && c <= '9' || c >= 'a' && c <= 'f') {
			return "", false
		}
	}
	return string(lib.UnHex(s)), true
}

func parseMap(s string) (map[string]string, bool) {
	if s == "nil" {
		return nil, true
	}
	m := map[string]string{}
	if s == "{}" {
		return m, true
	}
	for _, e := range strings.Split(s, ",") {
		kv := strings.Split(e, ":")
		if len(kv) != 2 {
			return nil, false
		}
		k, ok1 := unhexS(kv[0])
		v, ok2 := unhexS(kv[1])
		if !ok1 || !ok2 {
			return nil, false
		}
		m[k] = v
	}
	return m, true
}

func parseV(st, tok string) (*V, bool) {
	v := &V{St: st}
	if tok == "nil" {
		if st == "appex" {
			return nil, false
		}
		v.Nil = true
		return v, true
	}
	p := strings.Split(tok, "/")
	var ok bool
	switch st {
	case "base":
		if len(p) != 4 {
			return nil, false
		}
		for i := 0; i < 3; i++ {
			if v.S[i], ok = unhexS(p[i]); !ok {
				return nil, false
			}
		}
		if v.E, ok = parseMap(p[3]); !ok {
			return nil, false
		}
	case "baseresp":
		if len(p) != 3 {
			return nil, false
		}
		if v.S[0], ok = unhexS(p[0]); !ok {
			return nil, false
		}
		c, err := strconv.ParseInt(p[1], 10, 32)
		if err != nil {
			return nil, false
		}
		v.Code = int32(c)
		if v.E, ok = parseMap(p[2]); !ok {
			return nil, false
		}
	case "appex":
		if len(p) != 2 {
			return nil, false
		}
		c, err := strconv.ParseInt(p[0], 10, 32)
		if err != nil {
			return nil, false
		}
		v.Code = int32(c)
		if v.S[0], ok = unhexS(p[1]); !ok {
			return nil, false
		}
	default:
		return nil, false
	}
	return v, true
}

// codec is what the three structs have in common (thrift.FastCodec).
type codec interface {
	BLength() int
	FastWriteNocopy(buf []byte, bw thrift.NocopyWriter) int
	FastWrite(buf []byte) int
	FastRead(buf []byte) (int, error)
	String() string
}

func copyMap(m map[string]string) map[string]string {
	if m == nil {
		return nil
	}
	r := make(map[string]string, len(m))
	for k, v := range m {
		r[k] = v
	}
	return r
}

// viaSetters decides (as a function of the value, so that a replay does the same) whether the struct
// under test is built with NewBase()/NewBaseResp() + setters or as a composite literal.
func (v *V) viaSetters() bool { return (len(v.S[0])+len(v.E))%2 == 0 }

// Codec builds the real struct (a typed nil pointer for a nil receiver).
func (v *V) Codec() codec {
	switch v.St {
	case "base":
		if v.Nil {
			return (*base.Base)(nil)
		}
		if v.viaSetters() {
			p := base.NewBase()
			p.SetLogID(v.S[0])
			p.SetCaller(v.S[1])
			p.SetAddr(v.S[2])
			p.SetExtra(copyMap(v.E))
			return p
		}
		return &base.Base{LogID: v.S[0], Caller: v.S[1], Addr: v.S[2], Extra: copyMap(v.E)}
	case "baseresp":
		if v.Nil {
			return (*base.BaseResp)(nil)
		}
		if v.viaSetters() {
			p := base.NewBaseResp()
			p.SetStatusMessage(v.S[0])
			p.SetStatusCode(v.Code)
			p.SetExtra(copyMap(v.E))
			return p
		}
		return &base.BaseResp{StatusMessage: v.S[0], StatusCode: v.Code, Extra: copyMap(v.E)}
	default:
		return thrift.NewApplicationException(v.Code, v.S[0])
	}
}

func fromCodec(st string, c codec) *V {
	v := &V{St: st}
	switch x := c.(type) {
	case *base.Base:
		v.S = [3]string{x.LogID, x.Caller, x.Addr}
		v.E = x.Extra
	case *base.BaseResp:
		v.S[0], v.Code, v.E = x.StatusMessage, x.StatusCode, x.Extra
	case *thrift.ApplicationException:
		v.Code, v.S[0] = x.TypeID(), x.Msg()
	}
	return v
}

func zeroCodec(st string) codec {
	switch st {
	case "base":
		return &base.Base{}
	case "baseresp":
		return &base.BaseResp{}
	default:
		return thrift.NewApplicationException(0, "")
	}
}

// ---------------------------------------------------------------- the recording direct writer

type recorder struct {
	pieces [][]byte
	caps   []int
}

func (r *recorder) WriteDirect(b []byte, remainCap int) error {
	r.pieces = append(r.pieces, append([]byte(nil), b...))
	r.caps = append(r.caps, remainCap)
	return nil
}

func (r *recorder) String() string {
	var sb strings.Builder
	for i := range r.pieces {
		sb.WriteString(" " + lib.Hex(r.pieces[i]) + ":" + strconv.Itoa(r.caps[i]))
	}
	return sb.String()
}

// mkBuf builds the destination buffer of an `nc` op: n bytes, pre-filled. capTok "" = capacity n;
// "c<extra>" = make([]byte, n, n+extra); "p<size>" = a pooled-style big buffer resliced to n (big[:n]).
// `whole` is the backing array (to check that nothing beyond len is written).
func mkBuf(n int, capTok string) (buf, whole []byte, ok bool) {
	if capTok == "" {
		b := filled(n)
		return b, b, true
	}
	k, err := strconv.Atoi(capTok[1:])
	if err != nil || k < 0 {
		return nil, nil, false
	}
	switch capTok[0] {
	case 'c':
		whole = filled(n + k)
	case 'p':
		if k < n {
			return nil, nil, false
		}
		whole = filled(k)
	default:
		return nil, nil, false
	}
	return whole[:n:len(whole)], whole, true
}

// spareNote reports a store beyond len(buf) into the spare capacity
func spareNote(n int, whole []byte) string {
	for _, x := range whole[n:] {
		if x != fillByte {
			return " spare-modified"
		}
	}
	return ""
}

func capTokOf(f []string) string {
	if len(f) == 6 {
		return f[5]
	}
	return ""
}

func filled(n int) []byte {
	b := make([]byte, n)
	for i := range b {
		b[i] = fillByte
	}
	return b
}

// ---------------------------------------------------------------- allocation guard for FastRead

// mapSizeOK walks the top-level fields the way FastRead does and reports whether every size handed to
// make(map, sz) is ≤ maxMapSize. It is only a guard: it uses the library's own Skip to step over
// unknown fields and gives up (true) where FastRead would return an error.
func mapSizeOK(st string, b []byte) bool {
	off := 0
	for {
		if off >= len(b) {
			return true
		}
		t := b[off]
		if t == 0 {
			return true
		}
		if off+3 > len(b) {
			return true
		}
		id := int16(binary.BigEndian.Uint16(b[off+1:]))
		off += 3
		kind := 0 // 1 string, 2 i32, 3 map
		switch st {
		case "base":
			switch {
			case (id == 1 || id == 2 || id == 3) && t == lib.STRING:
				kind = 1
			case id == 6 && t == lib.MAP:
				kind = 3
			}
		case "baseresp":
			switch {
			case id == 1 && t == lib.STRING:
				kind = 1
			case id == 2 && t == lib.I32:
				kind = 2
			case id == 3 && t == lib.MAP:
				kind = 3
			}
		default:
			switch {
			case id == 1 && t == lib.STRING:
				kind = 1
			case id == 2 && t == lib.I32:
				kind = 2
			}
		}
		str := func() bool {
			if off+4 > len(b) {
				return false
			}
			n := int(int32(binary.BigEndian.Uint32(b[off:])))
			if n < 0 || off+4+n > len(b) {
				return false
			}
			off += 4 + n
			return true
		}
		switch kind {
		case 1:
			if !str() {
				return true
			}
		case 2:
			if off+4 > len(b) {
				return true
			}
			off += 4
		case 3:
			if off+6 > len(b) {
				return true
			}
			sz := binary.BigEndian.Uint32(b[off+2:])
			if sz > maxMapSize {
				return false
			}
			off += 6
			for i := uint32(0); i < sz; i++ {
				if !str() || !str() {
					return true
				}
			}
		default:
			ok := true
			func() {
				defer func() {
					if recover() != nil {
						ok = false
					}
				}()
				n, err := thrift.Binary.Skip(b[off:], thrift.TType(int8(t)))
				if err != nil || n < 0 || off+n > len(b) {
					ok = false
					return
				}
				off += n
			}()
			if !ok {
				return true
			}
		}
	}
}

// ---------------------------------------------------------------- running one op line

// runAcc: build the value with New…() + setters, read it back through the getters; String() must not
// panic on the value nor on a nil receiver (its text is not compared).
func runAcc(v *V) string {
	g := &V{St: v.St}
	var isset bool
	var direct string
	switch v.St {
	case "base":
		p := base.NewBase()
		p.SetLogID(v.S[0])
		p.SetCaller(v.S[1])
		p.SetAddr(v.S[2])
		p.SetExtra(copyMap(v.E))
		g.S = [3]string{p.GetLogID(), p.GetCaller(), p.GetAddr()}
		g.E = p.GetExtra()
		isset = p.IsSetExtra()
		direct = fromCodec("base", p).Tok()
		_ = p.String()
		_ = (*base.Base)(nil).String()
	default:
		p := base.NewBaseResp()
		p.SetStatusMessage(v.S[0])
		p.SetStatusCode(v.Code)
		p.SetExtra(copyMap(v.E))
		g.S[0], g.Code = p.GetStatusMessage(), p.GetStatusCode()
		g.E = p.GetExtra()
		isset = p.IsSetExtra()
		direct = fromCodec("baseresp", p).Tok()
		_ = p.String()
		_ = (*base.BaseResp)(nil).String()
	}
	return g.Tok() + " " + strconv.FormatBool(isset) + " " + direct + " str=ok"
}

func wOf(tok string, rec *recorder) (thrift.NocopyWriter, bool) {
	switch tok {
	case "w":
		return rec, true
	case "nil":
		return nil, true
	}
	return nil, false
}

// runOp executes one op line on the real code. ok=false: not an op of this family / guarded out.
func runOp(f []string) (res string, ok bool) {
	switch {
	case len(f) == 4 && f[0] == "fc" && f[2] == "blen":
		v, ok := parseV(f[1], f[3])
		if !ok {
			return "", false
		}
		return lib.Guard(func() string { return strconv.Itoa(v.Codec().BLength()) }), true
	case len(f) == 5 && f[0] == "fc" && f[2] == "write":
		v, ok := parseV(f[1], f[3])
		n, err := strconv.Atoi(f[4])
		if !ok || err != nil || n < 0 {
			return "", false
		}
		r1 := lib.Guard(func() string {
			buf := filled(n)
			k := v.Codec().FastWriteNocopy(buf, nil)
			return strconv.Itoa(k) + " " + lib.Hex(buf)
		})
		return r1 + fwNote(v, n, r1), true
	case len(f) == 5 && f[0] == "fc" && f[2] == "read":
		if _, ok := unhexS(f[3]); !ok {
			return "", false
		}
		b := lib.UnHex(f[3])
		v0, ok := parseV(f[1], f[4])
		if !ok || v0.Nil {
			return "", false
		}
		if !mapSizeOK(f[1], b) {
			em.Count("guard:map-size-capped")
			return "", false
		}
		return lib.Guard(func() string {
			c := v0.Codec()
			n, err := c.FastRead(b)
			out := fromCodec(f[1], c).Tok()
			if err != nil {
				return "err " + lib.ErrStr(err) + " " + out
			}
			return "ok " + strconv.Itoa(n) + " " + out
		}), true
	case len(f) == 4 && f[0] == "fc" && f[2] == "acc" && f[1] != "appex":
		v, ok := parseV(f[1], f[3])
		if !ok || v.Nil {
			return "", false
		}
		return lib.Guard(func() string { return runAcc(v) }), true
	case len(f) == 4 && f[0] == "fc" && f[2] == "initdef" && f[1] != "appex":
		v, ok := parseV(f[1], f[3])
		if !ok || v.Nil {
			return "", false
		}
		return lib.Guard(func() string {
			c := v.Codec()
			switch x := c.(type) {
			case *base.Base:
				x.InitDefault()
			case *base.BaseResp:
				x.InitDefault()
			}
			return fromCodec(f[1], c).Tok() + " " + lib.Hex(thrift.FastMarshal(c))
		}), true
	case len(f) == 4 && f[0] == "fc" && f[2] == "rt":
		v, ok := parseV(f[1], f[3])
		if !ok {
			return "", false
		}
		return lib.Guard(func() string {
			buf := thrift.FastMarshal(v.Codec())
			z := zeroCodec(f[1])
			err := thrift.FastUnmarshal(buf, z)
			return lib.Hex(buf) + " " + lib.ErrStr(err) + " " + fromCodec(f[1], z).Tok()
		}), true
	case (len(f) == 5 || len(f) == 6) && f[0] == "nc" && (f[1] == "str" || f[1] == "bin"):
		s, ok := unhexS(f[2])
		n, err := strconv.Atoi(f[3])
		rec := &recorder{}
		w, okw := wOf(f[4], rec)
		if !ok || err != nil || n < 0 || !okw {
			return "", false
		}
		buf, whole, okb := mkBuf(n, capTokOf(f))
		if !okb {
			return "", false
		}
		return lib.Guard(func() string {
			var k int
			if f[1] == "str" {
				k = thrift.Binary.WriteStringNocopy(buf, w, s)
			} else {
				k = thrift.Binary.WriteBinaryNocopy(buf, w, []byte(s))
			}
			return strconv.Itoa(k) + " " + lib.Hex(buf) + rec.String() + spareNote(n, whole)
		}), true
	case (len(f) == 5 || len(f) == 6) && f[0] == "nc":
		v, ok := parseV(f[1], f[2])
		n, err := strconv.Atoi(f[3])
		rec := &recorder{}
		w, okw := wOf(f[4], rec)
		if !ok || err != nil || n < 0 || !okw {
			return "", false
		}
		buf, whole, okb := mkBuf(n, capTokOf(f))
		if !okb {
			return "", false
		}
		r1 := lib.Guard(func() string {
			k := v.Codec().FastWriteNocopy(buf, w)
			return strconv.Itoa(k) + " " + lib.Hex(buf) + rec.String() + spareNote(n, whole)
		})
		if w == nil { // the copying path proper: FastWrite(buf) must give the same bytes and length
			return r1 + fwNote(v, n, r1), true
		}
		return r1, true
	case len(f) == 2 && f[0] == "nclen":
		s, ok := unhexS(f[1])
		if !ok {
			return "", false
		}
		return lib.Guard(func() string {
			return fmt.Sprintf("%d %d %d %d", thrift.Binary.StringLengthNocopy(s), thrift.Binary.BinaryLengthNocopy([]byte(s)),
				thrift.Binary.StringLength(s), thrift.Binary.BinaryLength([]byte(s)))
		}), true
	}
	return "", false
}

// fwNote runs FastWrite on a fresh buffer of n bytes and compares with the result of
// FastWriteNocopy(buf, nil) (same canonical form "<n> <hex>" or "PANIC <class>").
func fwNote(v *V, n int, nocopy string) string {
	r2 := lib.Guard(func() string {
		buf := filled(n)
		k := v.Codec().FastWrite(buf)
		return strconv.Itoa(k) + " " + lib.Hex(buf)
	})
	if r2 == nocopy {
		return " fw=same"
	}
	// with a map of ≥ 2 entries two writes may iterate differently: compare as multisets of entries
	if len(v.E) >= 2 && sameUpToMapOrder(v, nocopy, r2) {
		return " fw=same"
	}
	return " fw=differs"
}

// sameUpToMapOrder: both results are "<n> <hex>" with equal n and, decoded with the library's reader
// into a zero value, the same struct (the two passes over a Go map may iterate in different orders).
func sameUpToMapOrder(v *V, a, b string) bool {
	fa, fb := strings.Fields(a), strings.Fields(b)
	if len(fa) != 2 || len(fb) != 2 || fa[0] != fb[0] || len(fa[1]) != len(fb[1]) {
		return false
	}
	dec := func(h string) string {
		z := zeroCodec(v.St)
		if _, err := z.FastRead(lib.UnHex(h)); err != nil {
			return "err"
		}
		return fromCodec(v.St, z).Tok()
	}
	return dec(fa[1]) == dec(fb[1]) && sortedBytes(fa[1]) == sortedBytes(fb[1])
}

func sortedBytes(h string) string {
	b := lib.UnHex(h)
	sort.Slice(b, func(i, j int) bool { return b[i] < b[j] })
	return string(b)
}

func firstTok(s string) string {
	if i := strings.IndexByte(s, ' '); i >= 0 {
		if s[:i] == "err" || s[:i] == "PANIC" {
			if j := strings.IndexByte(s[i+1:], ' '); j >= 0 {
				return s[:i+1+j]
			}
			return s
		}
		return s[:i]
	}
	return s
}

func emitOp(class string, f ...string) {
	res, ok := runOp(f)
	if !ok {
		return
	}
	em.Count("class:" + class)
	if f[0] == "fc" && f[2] == "read" {
		em.Count("read:" + f[1] + ":" + firstTok(res))
	}
	if strings.HasPrefix(res, "PANIC") {
		em.Count("panic:" + f[0] + ":" + firstTok(res))
	}
	em.Line(res, f...)
}

// ---------------------------------------------------------------- generators

var sts = []string{"base", "baseresp", "appex"}

func genStr(r *lib.Rng, big bool) string {
	var n int
	if big {
		switch k := r.Intn(12); {
		case k <= 2:
			n = thr - 1
		case k <= 6:
			n = thr
		case k <= 9:
			n = thr + 1
		case k == 10:
			n = r.Range(thr, 2*thr)
		default:
			n = 3 * thr
		}
	} else {
		switch r.Intn(12) {
		case 0, 1:
			n = 0
		case 2:
			n = 1
		case 3:
			n = r.Range(100, 600)
		default:
			n = r.Range(1, 24)
		}
	}
	em.Count(strClass(n))
	b := r.Bytes(n)
	if r.Chance(1, 3) { // printable
		for i := range b {
			b[i] = 'a' + b[i]%26
		}
	}
	return string(b)
}

func strClass(n int) string {
	switch {
	case n == 0:
		return "strlen:0"
	case n == 1:
		return "strlen:1"
	case n < thr-1:
		return "strlen:small"
	case n == thr-1:
		return "strlen:thr-1"
	case n == thr:
		return "strlen:thr"
	case n == thr+1:
		return "strlen:thr+1"
	case n == 3*thr:
		return "strlen:3thr"
	}
	return "strlen:big"
}

func genI32(r *lib.Rng) int32 {
	switch r.Intn(8) {
	case 0:
		return 0
	case 1:
		return -1
	case 2:
		return -2147483648
	case 3:
		return 2147483647
	case 4:
		return int32(r.Pick(1, 127, 128, 255, 256, 65535, 65536, -128, -129))
	}
	return int32(r.U64())
}

// genMap: nil / empty / 1 / 2 / many entries; bigP/16 = chance of a large key or value
func genMap(r *lib.Rng, bigP int) map[string]string {
	var n int
	switch r.Intn(10) {
	case 0, 1:
		em.Count("map:nil")
		return nil
	case 2, 3:
		n = 0
	case 4, 5:
		n = 1
	case 6:
		n = 2
	case 7, 8:
		n = r.Range(3, 12)
	default:
		n = r.Range(13, 60)
		if r.Chance(1, 12) { // entry counts around the powers of two a size hint or a narrow counter might be cut at
			n = r.Pick(127, 128, 255, 256, 257, 1023, 1024, 1025, 1500, 4097)
			em.Count("map:many")
			m := make(map[string]string, n)
			for i := 0; len(m) < n; i++ {
				m[fmt.Sprintf("k%x", i*7+r.Intn(7))] = []string{"", "v", "val"}[r.Intn(3)]
			}
			return m
		}
	}
	em.Count(fmt.Sprintf("map:%s", sizeClass(n)))
	m := make(map[string]string, n)
	for len(m) < n {
		k := genStr(r, r.Chance(bigP, 64))
		if len(m) == 0 && r.Chance(1, 6) {
			k = ""
		}
		m[k] = genStr(r, r.Chance(bigP, 32))
	}
	return m
}

func sizeClass(n int) string {
	switch {
	case n <= 2:
		return strconv.Itoa(n)
	case n <= 12:
		return "3-12"
	}
	return ">12"
}

// genV: bigMask bit i = string field i is large
func genV(r *lib.Rng, st string, bigMask int, bigMapP int) *V {
	v := &V{St: st}
	if st != "appex" && r.Chance(1, 25) {
		v.Nil = true
		em.Count("value:nil-receiver")
		return v
	}
	for i := 0; i < 3; i++ {
		if st != "base" && i > 0 {
			break
		}
		v.S[i] = genStr(r, bigMask&(1<<i) != 0)
	}
	v.Code = genI32(r)
	if st != "appex" {
		v.E = genMap(r, bigMapP)
	}
	return v
}

// one field of an incoming struct
type fld struct {
	id      int16
	t       byte
	val     []byte
	structs []int // offsets of structural bytes inside val
}

func encStr(s string) []byte {
	b := binary.BigEndian.AppendUint32(nil, uint32(len(s)))
	return append(b, s...)
}

type known struct {
	id int16
	t  byte
}

func knownOf(st string) []known {
	switch st {
	case "base":
		return []known{{1, lib.STRING}, {2, lib.STRING}, {3, lib.STRING}, {6, lib.MAP}}
	case "baseresp":
		return []known{{1, lib.STRING}, {2, lib.I32}, {3, lib.MAP}}
	}
	return []known{{1, lib.STRING}, {2, lib.I32}}
}

func isKnown(st string, id int16, t byte) bool {
	for _, k := range knownOf(st) {
		if k.id == id && k.t == t {
			return true
		}
	}
	return false
}

func genKnown(r *lib.Rng, k known) fld {
	f := fld{id: k.id, t: k.t}
	switch k.t {
	case lib.STRING:
		f.val = encStr(genStr(r, r.Chance(1, 40)))
		f.structs = []int{0, 1, 2, 3}
	case lib.I32:
		f.val = binary.BigEndian.AppendUint32(nil, uint32(genI32(r)))
	case lib.MAP:
		n := r.Pick(0, 0, 1, 1, 2, 3, 5, 17)
		em.Count("readmap:" + sizeClass(n))
		f.val = []byte{lib.STRING, lib.STRING}
		f.val = binary.BigEndian.AppendUint32(f.val, uint32(n))
		f.structs = []int{0, 1, 2, 3, 4, 5}
		var keys []string
		for i := 0; i < n; i++ {
			k := genStr(r, false)
			if len(keys) > 0 && r.Chance(1, 4) { // repeated key: the later entry wins
				k = keys[r.Intn(len(keys))]
				em.Count("readmap:dup-key")
			}
			keys = append(keys, k)
			for j := 0; j < 4; j++ {
				f.structs = append(f.structs, len(f.val)+j)
			}
			f.val = append(f.val, encStr(k)...)
			for j := 0; j < 4; j++ {
				f.structs = append(f.structs, len(f.val)+j)
			}
			f.val = append(f.val, encStr(genStr(r, false))...)
		}
	}
	return f
}

func genUnknown(r *lib.Rng, g *lib.TGen, st string) fld {
	ks := knownOf(st)
	for {
		t := byte(lib.AllTypes[r.Intn(len(lib.AllTypes))])
		var id int16
		switch r.Intn(6) {
		case 0, 1: // an id of the IDL under another type
			id = ks[r.Intn(len(ks))].id
		case 2:
			id = int16(r.Pick(0, -1, -32768, 32767, 255, 256, 257, -255, 4, 5, 7))
		case 3: // ids whose shifted/sign-extended image shares low bits with a known key
			id = int16(ks[r.Intn(len(ks))].id) | int16(r.Pick(0x100, 0x1000, -0x8000, 0x4000))
		default:
			id = int16(r.U64())
		}
		if isKnown(st, id, t) {
			continue
		}
		depth := r.Pick(1, 2, 2, 3, 4)
		g.MaxStr = r.Pick(4, 40, 40, 300)
		val := g.Gen(int(t), depth)
		class := "unknown:other-id"
		for _, k := range ks {
			if k.id == id {
				class = "unknown:colliding-id"
			}
		}
		em.Count(class)
		em.Count(fmt.Sprintf("unknown:type:%d", t))
		return fld{id: id, t: t, val: append([]byte(nil), val...), structs: append([]int(nil), g.Structs...)}
	}
}

// encFlds returns the encoding (with STOP) and the offsets of its structural bytes
func encFlds(fs []fld) (b []byte, structs []int) {
	for _, f := range fs {
		structs = append(structs, len(b), len(b)+1, len(b)+2)
		b = append(b, f.t, byte(uint16(f.id)>>8), byte(f.id))
		for _, s := range f.structs {
			structs = append(structs, len(b)+s)
		}
		b = append(b, f.val...)
	}
	structs = append(structs, len(b))
	b = append(b, 0)
	return
}

// genFieldList: known fields in any order (each 0..2 times), unknown fields interleaved
func genFieldList(r *lib.Rng, g *lib.TGen, st string) []fld {
	var fs []fld
	for _, k := range knownOf(st) {
		reps := r.Pick(0, 1, 1, 1, 1, 2)
		if reps == 2 {
			em.Count("fields:repeated-known")
		}
		for i := 0; i < reps; i++ {
			fs = append(fs, genKnown(r, k))
		}
	}
	nu := r.Pick(0, 0, 1, 1, 2, 3, 6)
	em.Count(fmt.Sprintf("fields:unknown:%d", nu))
	for i := 0; i < nu; i++ {
		fs = append(fs, genUnknown(r, g, st))
	}
	// shuffle
	for i := len(fs) - 1; i > 0; i-- {
		j := r.Intn(i + 1)
		fs[i], fs[j] = fs[j], fs[i]
	}
	return fs
}

func zeroTok(st string) string {
	return (&V{St: st}).Tok()
}

func genS0(r *lib.Rng, st string) string {
	if r.Chance(2, 3) {
		return zeroTok(st)
	}
	v := genV(r, st, 0, 0)
	v.Nil = false
	return v.Tok()
}

func genCases(o *lib.Opts) {
	r := lib.NewRng(o.Seed)
	g := lib.NewTGen(r)
	n := o.N
	if n == 0 {
		n = 250
		if o.Tier == "thorough" {
			n = 3000
		}
	}

	cutLimit := 16
	if o.Tier == "thorough" {
		cutLimit = 200
	}

	// 1. values: length, write (exact, roomy, short buffers), round trip
	for i := 0; i < n; i++ {
		for _, st := range sts {
			mask := 0
			if i%25 == 0 {
				mask = r.Intn(8)
			}
			v := genV(r, st, mask, 0)
			tok := v.Tok()
			bl := v.Codec().BLength()
			emitOp("blen", "fc", st, "blen", tok)
			emitOp("write-exact", "fc", st, "write", tok, strconv.Itoa(bl))
			emitOp("write-roomy", "fc", st, "write", tok, strconv.Itoa(bl+r.Pick(1, 2, 7, 100)))
			emitOp("rt", "fc", st, "rt", tok)
			if st != "appex" && !v.Nil {
				emitOp("acc", "fc", st, "acc", tok)
				emitOp("initdef", "fc", st, "initdef", tok)
			}
			if v.viaSetters() {
				em.Count("value:via-setters")
			}
			if i%4 == 0 && bl > 0 { // too short: outside C11, model vs implementation only
				emitOp("write-short", "fc", st, "write", tok, strconv.Itoa(r.Intn(bl)))
				emitOp("write-short", "fc", st, "write", tok, strconv.Itoa(bl-1))
			}
		}
	}
	// every short buffer for one small value per struct
	for _, tok := range [][2]string{{"base", "6162/-/63/64:65"}, {"baseresp", "61/-7/-:62"}, {"appex", "6/6162"}} {
		v, _ := parseV(tok[0], tok[1])
		bl := v.Codec().BLength()
		for k := 0; k <= bl+1; k++ {
			emitOp("write-short-all", "fc", tok[0], "write", tok[1], strconv.Itoa(k))
			emitOp("nc-short-all", "nc", tok[0], tok[1], strconv.Itoa(k), "w")
		}
	}

	// 2. reads: field lists with permutations, repeats, unknown fields; cut points; perturbations
	for i := 0; i < 4*n; i++ {
		st := sts[i%3]
		fs := genFieldList(r, g, st)
		b, structs := encFlds(fs)
		b = append(b, r.Bytes(r.Pick(0, 0, 1, 5))...)
		hx := lib.Hex(b)
		emitOp("read-valid", "fc", st, "read", hx, genS0(r, st))
		z := zeroTok(st)
		// cut points: all of them for encodings up to cutLimit bytes, else cutLimit sampled ones
		end := len(b)
		ncut := end
		if ncut > cutLimit {
			ncut = cutLimit
		}
		for c := 0; c < ncut; c++ {
			cut := c
			if end > cutLimit {
				cut = r.Intn(end)
			}
			emitOp("read-cut", "fc", st, "read", lib.Hex(b[:cut]), z)
		}
		// structural bytes replaced by boundary values
		for k := 0; k < 4 && len(structs) > 0; k++ {
			pos := structs[r.Intn(len(structs))]
			m := append([]byte(nil), b...)
			if r.Chance(1, 5) {
				m[pos] |= 0x80 // sign-extended type bytes / ids
			} else {
				m[pos] = lib.BoundaryBytes[r.Intn(len(lib.BoundaryBytes))]
			}
			emitOp("read-perturb", "fc", st, "read", lib.Hex(m), z)
		}
		// a second struct spliced into the middle
		if i%5 == 0 && len(b) > 3 {
			w, _ := encFlds(genFieldList(r, g, st))
			c := r.Intn(len(b))
			m := append(append([]byte(nil), b[:c]...), w...)
			emitOp("read-splice", "fc", st, "read", lib.Hex(m), z)
		}
	}
	// deep unknown fields (nesting 62..66 around a leaf) and all 11 types under every known id
	for _, st := range sts {
		for _, kind := range []int{lib.STRUCT, lib.LIST, lib.MAP} {
			for _, lv := range []int{1, 5, 62, 63, 64, 65, 66} {
				t, v := lib.Nest(kind, lv, lib.BYTE, []byte{7}, false)
				b, _ := encFlds([]fld{{id: 9, t: byte(t), val: v}, genKnown(r, knownOf(st)[0])})
				emitOp("read-deep", "fc", st, "read", lib.Hex(b), zeroTok(st))
			}
		}
		for _, k := range knownOf(st) {
			for _, t := range lib.AllTypes {
				var fs []fld
				if isKnown(st, k.id, byte(t)) {
					fs = []fld{genKnown(r, k)}
				} else {
					fs = []fld{{id: k.id, t: byte(t), val: append([]byte(nil), g.Gen(t, 2)...)}}
				}
				fs = append(fs, genKnown(r, knownOf(st)[r.Intn(len(knownOf(st)))]))
				b, _ := encFlds(fs)
				emitOp("read-id-x-type", "fc", st, "read", lib.Hex(b), zeroTok(st))
			}
		}
		// the known map id with other key/value types (outside C11: model vs implementation only)
		for _, kt := range []int{lib.STRING, lib.I32, lib.BYTE} {
			for _, vt := range []int{lib.STRING, lib.I64, lib.STRUCT} {
				ks := knownOf(st)
				mk := ks[len(ks)-1]
				if mk.t != lib.MAP {
					continue
				}
				val := []byte{byte(kt), byte(vt), 0, 0, 0, 1}
				val = g.Value(val, kt, 1)
				val = g.Value(val, vt, 1)
				b, _ := encFlds([]fld{{id: mk.id, t: lib.MAP, val: val}})
				emitOp("read-map-other-kv", "fc", st, "read", lib.Hex(b), zeroTok(st))
			}
		}
		// hostile declared sizes
		for _, sz := range []uint32{maxMapSize, maxMapSize + 1, 0x7fffffff, 0x80000000, 0xffffffff} {
			ks := knownOf(st)
			mk := ks[len(ks)-1]
			if mk.t == lib.MAP {
				val := binary.BigEndian.AppendUint32([]byte{lib.STRING, lib.STRING}, sz)
				b, _ := encFlds([]fld{{id: mk.id, t: lib.MAP, val: append(val, 0, 0, 0, 0, 0, 0, 0, 0)}})
				emitOp("read-hostile-size", "fc", st, "read", lib.Hex(b), zeroTok(st))
			}
			val := binary.BigEndian.AppendUint32(nil, sz)
			b, _ := encFlds([]fld{{id: 1, t: lib.STRING, val: append(val, 1, 2, 3)}})
			emitOp("read-hostile-size", "fc", st, "read", lib.Hex(b), zeroTok(st))
		}
	}
	// bounded-exhaustive short inputs over a grammar alphabet
	alpha := []byte{0x00, 0x01, 0x02, 0x03, 0x06, 0x08, 0x0b, 0x0c, 0x0d, 0x0f, 0x80, 0xff}
	maxLen := 3
	if o.Tier == "thorough" {
		maxLen = 4
	}
	var rec func(cur []byte)
	rec = func(cur []byte) {
		for _, st := range sts {
			emitOp("read-exhaustive", "fc", st, "read", lib.Hex(cur), zeroTok(st))
		}
		if len(cur) == maxLen {
			return
		}
		for _, a := range alpha {
			rec(append(append([]byte(nil), cur...), a))
		}
	}
	rec(nil)

	// 3. no-copy: string level, all lengths around the threshold
	for _, L := range []int{0, 1, 2, thr - 2, thr - 1, thr, thr + 1, 2 * thr, 3 * thr} {
		s := hexS(string(r.Bytes(L)))
		for _, kind := range []string{"str", "bin"} {
			for _, w := range []string{"w", "nil"} {
				emitOp("nc-str", "nc", kind, s, strconv.Itoa(4+L), w)
				// destination with spare capacity (len < cap): remainCap is about len, not cap
				emitOp("nc-str-sparecap", "nc", kind, s, strconv.Itoa(4+L), w, "c"+strconv.Itoa(r.Pick(1, 7, 512, 4096)))
				emitOp("nc-str-sparecap", "nc", kind, s, strconv.Itoa(4+L), w, "p"+strconv.Itoa(pow2(4+L+1)))
				emitOp("nc-str", "nc", kind, s, strconv.Itoa(4+L+r.Pick(1, 3, 100)), w)
				emitOp("nc-str-short", "nc", kind, s, strconv.Itoa(r.Intn(4+L)), w)
				emitOp("nc-str-short", "nc", kind, s, strconv.Itoa(r.Pick(0, 3, 4, 5)), w)
			}
		}
		emitOp("nclen", "nclen", s)
	}
	// struct level: every small/large combination of the string fields, large map entries
	reps := 2
	if o.Tier == "thorough" {
		reps = 40
	}
	type ncCase struct {
		st         string
		mask, mapP int
	}
	var ncs []ncCase
	for k := 0; k < reps; k++ {
		for mask := 0; mask < 8; mask++ {
			ncs = append(ncs, ncCase{"base", mask, 0})
		}
		for j := 0; j < 4; j++ {
			ncs = append(ncs, ncCase{"baseresp", j & 1, 0})
		}
		ncs = append(ncs, ncCase{"appex", 0, 0}, ncCase{"appex", 1, 0})
		for j := 0; j < 5; j++ { // large keys / values inside the map
			ncs = append(ncs, ncCase{sts[j%2], r.Intn(2), r.Pick(4, 8, 24)})
		}
	}
	for i, c := range ncs {
		v := genV(r, c.st, c.mask, c.mapP)
		tok := v.Tok()
		bl := v.Codec().BLength()
		for _, w := range []string{"w", "nil"} {
			emitOp("nc-exact", "nc", c.st, tok, strconv.Itoa(bl), w)
		}
		emitOp("nc-roomy", "nc", c.st, tok, strconv.Itoa(bl+r.Pick(1, 4, 4096)), "w")
		// destination with spare capacity: make([]byte, BLength, BLength+extra) and a pooled-style big[:BLength]
		for _, extra := range []int{1, 7, 512, 4096} {
			if extra == 1 || extra == 4096 || i%2 == 0 {
				emitOp("nc-sparecap", "nc", c.st, tok, strconv.Itoa(bl), "w", "c"+strconv.Itoa(extra))
			}
		}
		emitOp("nc-sparecap", "nc", c.st, tok, strconv.Itoa(bl), "w", "p"+strconv.Itoa(pow2(bl+1)))
		if i%4 == 0 {
			emitOp("nc-sparecap", "nc", c.st, tok, strconv.Itoa(bl), "nil", "c"+strconv.Itoa(r.Pick(1, 7, 512, 4096)))
		}
		// too short: outside C15, model vs implementation only (a map order cannot be recovered from a
		// stream that does not fit, so only maps with at most one entry)
		if i%3 == 0 && bl > 0 && len(v.E) <= 1 {
			emitOp("nc-short", "nc", c.st, tok, strconv.Itoa(r.Intn(bl)), "w")
			emitOp("nc-short", "nc", c.st, tok, strconv.Itoa(bl-r.Pick(1, 2, 4, 5)), "w")
		}
	}
}

func pow2(n int) int {
	c := 64
	for c < n {
		c *= 2
	}
	return c
}

func replay(lines [][]string) {
	for _, f := range lines {
		if res, ok := runOp(f); ok {
			em.Line(res, f...)
		}
	}
}

func main() {
	o := lib.ParseOpts()
	em = lib.NewEmitter()
	if o.Replay != "" {
		replay(lib.ReadOpLines(o.Replay))
		em.Close(o.Stats)
		return
	}
	replay(lib.ReadOpLines(o.Corpus))
	genCases(o)
	em.Close(o.Stats)
}

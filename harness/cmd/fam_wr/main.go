// fam_wr: correspondence harness for the buffered writer (C05).
//
// One history = one `wr new …` line followed by op lines; every line carries a trailing tag
// `@<seed>.<q|t>.<hist>.<step>` (ignored by the driver).  Histories are generated adaptively (the
// generator looks at the results of the real code, e.g. which regions exist), but
// deterministically from (seed, tier, hist), so `-replay` can rebuild the whole prefix of a tagged line.
// The harness keeps the REAL []byte regions returned by Malloc and stores into them on `fill`.
package main

import (
	"fmt"
	"strconv"
	"strings"

	"github.com/cloudwego/gopkg/bufiox"
	"verifharness/lib"
)

var em *lib.Emitter

// sink is the underlying io.Writer: records every call of the current Flush, fails call number failAt.
type sink struct {
	failAt int
	calls  int
	cur    [][]byte
}

func (s *sink) Write(p []byte) (int, error) {
	s.calls++
	s.cur = append(s.cur, append([]byte(nil), p...))
	if s.calls == s.failAt {
		return 0, lib.InjErr(s.failAt)
	}
	return len(p), nil
}

// state of the history being run
type state struct {
	w       bufiox.Writer
	bytes   bool
	sk      *sink
	tgt     *[]byte
	regions [][]byte
	// generator bookkeeping
	epoch0   int      // index of the first region of the current flush epoch
	filled   [][]bool // per region: which bytes were stored by the caller
	lastRem  int      // spare capacity after the last Malloc (cap(region) - len(region)), -1 unknown
	curCap   int      // capacity of the current buffer as seen through Malloc, 0 unknown
	growths  int
	unflush  int
	failed   bool
	flushes  int
}

var st *state

func exec(f []string) string {
	if len(f) < 2 || f[0] != "wr" {
		return "bad-op"
	}
	if f[1] == "new" {
		return lib.Guard(func() string {
			if len(f) == 4 && f[2] == "default" {
				k, err := strconv.Atoi(f[3])
				if err != nil {
					k = 0
				}
				sk := &sink{failAt: k}
				st = &state{w: bufiox.NewDefaultWriter(sk), sk: sk, lastRem: -1}
				return "ok"
			}
			if len(f) == 5 && f[2] == "bytes" {
				init := lib.UnHex(f[3])
				var buf []byte
				if f[4] != "nil" {
					c, _ := strconv.Atoi(f[4])
					if c < len(init) {
						return "bad-op"
					}
					arr := make([]byte, c)
					copy(arr, init)
					buf = arr[:len(init)]
				}
				tgt := new([]byte)
				*tgt = buf
				st = &state{w: bufiox.NewBytesWriter(tgt), bytes: true, tgt: tgt, lastRem: -1}
				return "ok"
			}
			return "bad-op"
		})
	}
	if st == nil {
		return "bad-op"
	}
	s := st
	return lib.Guard(func() string {
		switch {
		case f[1] == "malloc" && len(f) == 3:
			n, err := strconv.Atoi(f[2])
			if err != nil {
				return "bad-op"
			}
			before := s.w.WrittenLen()
			b, e := s.w.Malloc(n)
			if e != nil {
				return "err " + lib.ErrStr(e)
			}
			s.regions = append(s.regions, b)
			s.filled = append(s.filled, make([]bool, len(b)))
			s.lastRem = cap(b) - len(b)
			if c := before + cap(b); b != nil {
				if s.curCap != 0 && c != s.curCap {
					s.growths++
				}
				s.curCap = c
			}
			s.unflush += len(b)
			return fmt.Sprintf("ok %d %d", len(b), cap(b))
		case f[1] == "fill" && len(f) == 5:
			id, e1 := strconv.Atoi(f[2])
			off, e2 := strconv.Atoi(f[3])
			if e1 != nil || e2 != nil || id < 0 || id >= len(s.regions) || off < 0 {
				return "bad-op"
			}
			bs := lib.UnHex(f[4])
			reg := s.regions[id]
			copy(reg[off:off+len(bs)], bs)
			for i := range bs {
				s.filled[id][off+i] = true
			}
			return "ok"
		case f[1] == "wb" && len(f) == 3:
			bs := lib.UnHex(f[2])
			n, e := s.w.WriteBinary(bs)
			if e != nil {
				return fmt.Sprintf("err %s %d", lib.ErrStr(e), n)
			}
			s.lastRem = -1
			s.unflush += n
			return fmt.Sprintf("ok %d", n)
		case f[1] == "len" && len(f) == 2:
			return fmt.Sprintf("ok %d", s.w.WrittenLen())
		case f[1] == "flush" && len(f) == 2:
			if s.sk != nil {
				s.sk.cur = nil
			}
			e := s.w.Flush()
			var sb strings.Builder
			if s.sk != nil {
				fmt.Fprintf(&sb, "%d", len(s.sk.cur))
				for _, c := range s.sk.cur {
					sb.WriteByte(' ')
					sb.WriteString(lib.Hex(c))
				}
			}
			if e != nil {
				s.failed = true
				if s.bytes {
					return "err " + lib.ErrStr(e)
				}
				return "err " + lib.ErrStr(e) + " " + sb.String()
			}
			s.epoch0 = len(s.regions)
			s.lastRem, s.curCap, s.unflush = -1, 0, 0
			s.flushes++
			if s.bytes {
				if *s.tgt == nil {
					return "ok tgt nil 0"
				}
				return fmt.Sprintf("ok tgt %s %d", lib.Hex(*s.tgt), cap(*s.tgt))
			}
			return "ok " + sb.String()
		}
		return "bad-op"
	})
}

// ---------------------------------------------------------------- generation

type gen struct {
	r    *lib.Rng
	tag  string // "@seed.hist."
	step int
	upto int // emit steps 0..upto (-1 = all)
	done bool
	thorough bool
	budget int // bytes this history may still write with large sizes
}

// laterEpochMark: a Flush of a bytes writer that was already flushed successfully gets a tag ending
// in "later-epoch" (the known finding F15 is keyed on this mark); sep joins it to an existing tag.
func laterEpochMark(fields []string, sep string) string {
	if len(fields) == 2 && fields[0] == "wr" && fields[1] == "flush" && st != nil && st.bytes && st.flushes >= 1 {
		return sep + "later-epoch"
	}
	return ""
}

// do runs one op on the real code and emits its line; returns the result
func (g *gen) do(fields ...string) string {
	if g.done {
		return ""
	}
	tag := g.tag + strconv.Itoa(g.step) + laterEpochMark(fields, ".")
	res := exec(fields)
	em.Line(res, append(fields, tag)...)
	if g.upto >= 0 && g.step >= g.upto {
		g.done = true
	}
	g.step++
	return res
}

func sizeClass(n int) string {
	switch {
	case n < 0:
		return "neg"
	case n == 0:
		return "0"
	case n < 16:
		return "<16"
	case n < 4095:
		return "<4095"
	case n <= 4097:
		return "4095-4097"
	case n < 8191:
		return "<8191"
	case n <= 8193:
		return "8191-8193"
	default:
		return ">8193"
	}
}

func (g *gen) malloc(n int) {
	em.Count("malloc:" + sizeClass(n))
	res := g.do("wr", "malloc", strconv.Itoa(n))
	em.Count("malloc-res:" + firstTok(res))
}

func (g *gen) wb(n int) {
	em.Count("wb:" + sizeClass(n))
	g.do("wr", "wb", lib.Hex(g.r.Bytes(n)))
}

// fill stores fresh random bytes into [off, off+k) of region id
func (g *gen) fill(id, off, k int) {
	g.do("wr", "fill", strconv.Itoa(id), strconv.Itoa(off), lib.Hex(g.r.Bytes(k)))
}

// one lazy partial (or whole, or overwriting) fill of a random region of the current epoch
func (g *gen) randomFill() {
	s := st
	if s == nil || len(s.regions) == s.epoch0 {
		return
	}
	id := s.epoch0 + g.r.Intn(len(s.regions)-s.epoch0)
	n := len(s.regions[id])
	if n == 0 {
		if g.r.Chance(1, 4) {
			em.Count("fill:empty-region")
			g.fill(id, 0, 0)
		}
		return
	}
	switch g.r.Intn(4) {
	case 0: // whole region
		em.Count("fill:whole")
		g.fill(id, 0, n)
	case 1: // a prefix or suffix
		k := g.r.Range(1, n)
		em.Count("fill:edge")
		if g.r.Bool() {
			g.fill(id, 0, k)
		} else {
			g.fill(id, n-k, k)
		}
	default:
		off := g.r.Intn(n)
		k := g.r.Range(1, n-off)
		if k > 64 && g.r.Bool() {
			k = g.r.Range(1, 64)
		}
		em.Count("fill:inner")
		g.fill(id, off, k)
	}
}

// completeFills stores into every byte of the current epoch's regions that was never stored, in
// random region order (the memory is dirty: unfilled bytes would be non-deterministic)
func (g *gen) completeFills() {
	s := st
	if s == nil {
		return
	}
	ids := []int{}
	for id := s.epoch0; id < len(s.regions); id++ {
		ids = append(ids, id)
	}
	for i := len(ids) - 1; i > 0; i-- {
		j := g.r.Intn(i + 1)
		ids[i], ids[j] = ids[j], ids[i]
	}
	for _, id := range ids {
		f := s.filled[id]
		for i := 0; i < len(f); {
			if f[i] {
				i++
				continue
			}
			j := i
			for j < len(f) && !f[j] {
				j++
			}
			g.fill(id, i, j-i)
			i = j
		}
	}
}

func (g *gen) flush() {
	s := st
	if s != nil {
		g.completeFills()
		em.Count(fmt.Sprintf("flush:growths=%d", min(s.growths, 5)))
		em.Count("flush:unflushed=" + sizeClass(s.unflush))
		s.growths = 0
	}
	res := g.do("wr", "flush")
	em.Count("flush-res:" + firstTok(res))
}

func min(a, b int) int {
	if a < b {
		return a
	}
	return b
}

func firstTok(s string) string {
	f := strings.Fields(s)
	if len(f) == 0 {
		return ""
	}
	if f[0] == "err" && len(f) > 1 {
		return "err-" + f[1]
	}
	return f[0]
}

var sizes = []int{0, 1, 2, 3, 7, 100, 1000, 4095, 4096, 4097, 8191, 8192, 8193, 12000}

func (g *gen) pickSize() int {
	n := g.pickSize0()
	if n > g.budget { // byte budget of the history used up: small sizes only
		n = g.r.Range(0, 12)
	}
	g.budget -= n
	return n
}

func (g *gen) pickSize0() int {
	s := st
	r := g.r
	if s != nil && s.lastRem >= 0 && r.Chance(1, 4) { // exactly / one below / one above the spare capacity
		n := s.lastRem + r.Pick(-1, 0, 0, 1)
		if n >= 0 && n <= 70000 {
			return n
		}
	}
	switch r.Intn(20) {
	case 0:
		return r.Range(0, 20000)
	case 1:
		return r.Pick(16384, 20000, 33000)
	case 2, 3, 4, 5, 6, 7:
		return sizes[r.Intn(len(sizes))]
	default:
		return r.Range(0, 40)
	}
}

// newWriter emits the `wr new` line of a random kind
func (g *gen) newWriter(kind int) {
	r := g.r
	switch kind {
	case 0: // default writer, sink never fails
		em.Count("new:default")
		g.do("wr", "new", "default", "-")
	case 1: // default writer, sink fails at call k
		k := r.Pick(1, 1, 2, 2, 3, 4, 6)
		em.Count(fmt.Sprintf("new:default-fail%d", k))
		g.do("wr", "new", "default", strconv.Itoa(k))
	case 2: // nil slice
		em.Count("new:bytes-nil")
		g.do("wr", "new", "bytes", "-", "nil")
	case 3: // empty with capacity (incl. 0)
		c := r.Pick(0, 1, 10, 4096, 5000, 8192)
		em.Count("new:bytes-empty")
		g.do("wr", "new", "bytes", "-", strconv.Itoa(c))
	case 4: // partly filled
		l := r.Pick(1, 5, 100, 4000, 4095)
		c := l + r.Pick(1, 2, 96, 4096, 5000)
		if r.Bool() {
			c = r.Pick(4096, 8192)
		}
		em.Count("new:bytes-part")
		g.do("wr", "new", "bytes", lib.Hex(r.Bytes(l)), strconv.Itoa(c))
	default: // full
		l := r.Pick(1, 7, 100, 4096, 5000)
		em.Count("new:bytes-full")
		g.do("wr", "new", "bytes", lib.Hex(r.Bytes(l)), strconv.Itoa(l))
	}
}

// randomHistory: Malloc/WriteBinary/lazy fills/WrittenLen/Flush in random order, several flushes
func (g *gen) randomHistory() {
	r := g.r
	kind := r.Pick(0, 0, 1, 1, 1, 2, 3, 4, 5)
	g.newWriter(kind)
	g.budget = r.Pick(100, 5000, 10000, 20000, 40000, 70000)
	if g.thorough {
		g.budget *= r.Pick(1, 2, 8)
	}
	nops := r.Range(2, 30)
	flushEvery := r.Pick(3, 5, 8, 30)
	immediate := r.Chance(1, 4) // fill every region right after Malloc
	small := r.Chance(1, 3)     // only small sizes: many regions, no growth
	afterFail := 0
	for i := 0; i < nops && !g.done; i++ {
		s := st
		if s == nil {
			return
		}
		if s.failed {
			afterFail++
			if afterFail > 4 {
				break
			}
		}
		if s.unflush > 300000 {
			g.flush()
			continue
		}
		switch x := r.Intn(20); {
		case x < 8:
			n := g.pickSize()
			if small {
				n = r.Range(0, 12)
			}
			before := len(s.regions)
			g.malloc(n)
			if immediate && len(s.regions) > before && n > 0 {
				g.fill(before, 0, n)
			}
		case x < 11:
			n := g.pickSize()
			if small {
				n = r.Range(0, 12)
			}
			g.wb(n)
		case x < 15:
			g.randomFill()
		case x < 17:
			g.do("wr", "len")
		case x == 17 && r.Chance(1, 3):
			g.malloc(-r.Range(1, 5000))
		default:
			if r.Intn(flushEvery) == 0 || x == 19 {
				g.flush()
				g.do("wr", "len")
			}
		}
	}
	if st != nil && !st.failed {
		g.flush()
		g.do("wr", "len")
	}
}

// exhaustive alphabet: op kinds × sizes
var exSizes = []int{0, 1, 4095, 4097}

type exOp struct {
	kind int // 0 malloc, 1 wb, 2 flush
	n    int
}

func exAlphabet() []exOp {
	var a []exOp
	for _, n := range exSizes {
		a = append(a, exOp{0, n}, exOp{1, n})
	}
	return append(a, exOp{2, 0})
}

// exhaustiveHistory number idx of length L over the alphabet, on writer kind wk; lazy = fill at the
// end in reverse order instead of right after Malloc
func (g *gen) exhaustiveHistory(wk int, ops []exOp, lazy bool) {
	switch wk {
	case 0:
		g.do("wr", "new", "default", "-")
	case 1:
		g.do("wr", "new", "default", "1")
	case 2:
		g.do("wr", "new", "bytes", "-", "nil")
	case 3:
		g.do("wr", "new", "bytes", "a1a2a3", "3")
	default:
		g.do("wr", "new", "bytes", "b1b2", "4096")
	}
	em.Count("exhaustive")
	for _, o := range ops {
		if st == nil || g.done {
			return
		}
		switch o.kind {
		case 0:
			before := len(st.regions)
			g.malloc(o.n)
			if !lazy && len(st.regions) > before && o.n > 0 {
				g.fill(before, 0, o.n)
			}
		case 1:
			g.wb(o.n)
		default:
			if lazy {
				for id := len(st.regions) - 1; id >= st.epoch0; id-- {
					if n := len(st.regions[id]); n > 0 && !st.filled[id][0] {
						g.fill(id, 0, n)
					}
				}
			}
			g.flush()
			g.do("wr", "len")
		}
	}
	if st != nil && !st.failed {
		if lazy {
			for id := len(st.regions) - 1; id >= st.epoch0; id-- {
				if n := len(st.regions[id]); n > 0 && !st.filled[id][0] {
					g.fill(id, 0, n)
				}
			}
		}
		g.do("wr", "len")
		g.flush()
		g.do("wr", "len")
	}
}

// plan of a run: history number h ↦ what to generate (a pure function of tier and h)
type plan struct {
	exLens []int // lengths of the exhaustive part
	exKinds int
	random int
}

func mkPlan(o *lib.Opts) plan {
	p := plan{exLens: []int{1, 2}, exKinds: 5, random: 1200}
	if o.Tier == "thorough" {
		p = plan{exLens: []int{1, 2, 3}, exKinds: 5, random: 5000}
	}
	if o.N > 0 {
		p.random = o.N
	}
	return p
}

// exhaustive histories are numbered first: (length, index in alphabet^length, writer kind, lazy)
func (p plan) exCount() int {
	a := len(exAlphabet())
	tot := 0
	for _, l := range p.exLens {
		c := 1
		for i := 0; i < l; i++ {
			c *= a
		}
		tot += c * p.exKinds * 2
	}
	return tot
}

func runHistory(o *lib.Opts, seed uint64, h int, upto int) {
	p := mkPlan(o)
	g := &gen{r: lib.NewRng(seed*1000003 + uint64(h)*7919 + 17), tag: fmt.Sprintf("@%d.%s.%d.", seed, o.Tier[:1], h), upto: upto, thorough: o.Tier == "thorough"}
	st = nil
	if h < p.exCount() {
		a := exAlphabet()
		idx := h
		for _, l := range p.exLens {
			c := 1
			for i := 0; i < l; i++ {
				c *= len(a)
			}
			if idx < c*p.exKinds*2 {
				lazy := idx%2 == 1
				idx /= 2
				wk := idx % p.exKinds
				idx /= p.exKinds
				ops := make([]exOp, l)
				for i := 0; i < l; i++ {
					ops[i] = a[idx%len(a)]
					idx /= len(a)
				}
				g.exhaustiveHistory(wk, ops, lazy)
				return
			}
			idx -= c * p.exKinds * 2
		}
		return
	}
	g.randomHistory()
}

func genCases(o *lib.Opts) {
	p := mkPlan(o)
	total := p.exCount() + p.random
	for h := 0; h < total; h++ {
		runHistory(o, o.Seed, h, -1)
	}
}

// replay: untagged lines run statefully as given; a tagged line `@seed.tier.hist.step` is rebuilt with
// its whole history prefix (steps 0..step), unless the previous rebuilt line was its predecessor.
func replay(o *lib.Opts, lines [][]string) {
	lastSeed, lastH, lastStep := uint64(0), -1, -1
	for _, f := range lines {
		if len(f) == 0 {
			continue
		}
		if t := f[len(f)-1]; strings.HasPrefix(t, "@") {
			parts := strings.Split(t[1:], ".")
			if len(parts) == 4 || (len(parts) == 5 && parts[4] == "later-epoch") {
				sd, e1 := strconv.ParseUint(parts[0], 10, 64)
				h, e2 := strconv.Atoi(parts[2])
				k, e3 := strconv.Atoi(parts[3])
				if e1 == nil && e2 == nil && e3 == nil {
					if sd == lastSeed && h == lastH && k <= lastStep {
						continue // already emitted as part of the prefix
					}
					o2 := *o
					o2.Tier = "quick"
					if parts[1] == "t" {
						o2.Tier = "thorough"
					}
					runHistory(&o2, sd, h, k)
					lastSeed, lastH, lastStep = sd, h, k
					continue
				}
			}
			f = f[:len(f)-1]
		}
		lastH = -1
		if m := laterEpochMark(f, "@"); m != "" {
			res := exec(f)
			em.Line(res, append(f, m)...)
			continue
		}
		em.Line(exec(f), f...)
	}
}

func main() {
	o := lib.ParseOpts()
	em = lib.NewEmitter()
	if o.Replay != "" {
		replay(o, lib.ReadOpLines(o.Replay))
		em.Close(o.Stats)
		return
	}
	replay(o, lib.ReadOpLines(o.Corpus))
	genCases(o)
	em.Close(o.Stats)
}

// fam_uf: correspondence harness for protocol/thrift/unknownfields (C13, C03).
//
//	uf convert <hex>   ConvertUnknownFields                       => ok <tree> | err <class> | PANIC <class>
//	uf get <kind> <hex> GetUnknownFields(v), v built per kind      => like uf convert | err notstruct|nofield | PANIC reflect
//	uf rt <hex>        Convert, UnknownFieldsLength, Write        => ok <hex written> <length>
//	uf write <tree>    WriteUnknownFields                         => ok <hex> <length|->
//	uf len <tree>      UnknownFieldsLength                        => ok <n> <bytes written|->
//	uf wrt <tree>      Length, Write, Convert                     => ok <tree> <length> <bytes written>
//
// Every WriteUnknownFields call of this family is made several times, into destination buffers that hold
// garbage (recycled memory: 0xAA, 0x0A, 0xFF, pseudo-random non-zero bytes; also a fresh zero buffer) and that
// have exactly the advertised length or are longer; the reported bytes are the written prefix buf[:off].
// The bytes written are the encoding of the tree whatever the buffer held (C13), so all runs give one result
// and the op has one line; should they differ, the op gets one line per distinct result.
package main

import (
	"encoding/binary"
	"fmt"
	"math"
	"strings"

	"github.com/cloudwego/gopkg/protocol/thrift"
	uf "github.com/cloudwego/gopkg/protocol/thrift/unknownfields"
	"verifharness/lib"
)

const (
	maxDeclared    = 100000 // a declared container size above this is not replayed on Go (allocation cap)
	maxDeclaredSum = 400000
)

var em *lib.Emitter

// errClass canonicalises the error of this package into the class of its innermost cause. The
// package flattens causes with %v at the top level, so the class is recovered from the fixed texts of
// the sentinel errors (never emitted).
func errClass(err error) string {
	m := err.Error()
	switch {
	case m == "_unknownFields is empty":
		return "empty"
	case strings.HasSuffix(m, "is not a struct type"): // GetUnknownFields
		return "notstruct"
	case strings.Contains(m, "has no field named '_unknownFields'"):
		return "nofield"
	case strings.HasSuffix(m, "depth limit exceeded"):
		return "depth"
	case strings.HasSuffix(m, "negative size"):
		return "negsize"
	case strings.HasSuffix(m, "buf too small"), strings.Contains(m[max(0, len(m)-16):], "len(buf) < "):
		return "short"
	case strings.Contains(m[max(0, len(m)-24):], "unknown data type "):
		return "unktype"
	}
	return "other"
}

func max(a, b int) int {
	if a > b {
		return a
	}
	return b
}

func guard(f func() string) string {
	r := lib.Guard(f)
	if strings.HasPrefix(r, "PANIC other:interface_conversion") {
		return "PANIC typeassert"
	}
	return r
}

func runConvert(b []byte) string {
	return guard(func() string {
		fs, err := uf.ConvertUnknownFields(b)
		if err != nil {
			return "err " + errClass(err)
		}
		return "ok " + lib.UfShow(fs)
	})
}

// uf rt: a panic inside ConvertUnknownFields is "PANIC <class>" (C03); a panic of Length / Write on the tree it
// returned (Write gets a buffer of exactly the advertised length) is "WPANIC <class>" (C13).
// arguments of GetUnknownFields (the reflect wrapper around ConvertUnknownFields)
type withField struct {
	A              int32
	_unknownFields []byte
}
type withoutField struct{ A int32 }
type wrongField struct{ _unknownFields string }

var getKinds = []string{"ptr", "val", "nilptr", "nil", "int", "nofield", "nofieldptr", "wrongtype"}

// uf get <kind> <hex> => like uf convert; notstruct / nofield errors; a `_unknownFields` of another type makes
// reflect panic ("PANIC reflect")
func runGet(kind string, b []byte) string {
	var v interface{}
	switch kind {
	case "ptr":
		v = &withField{A: 1, _unknownFields: b}
	case "val":
		v = withField{A: 2, _unknownFields: b}
	case "nilptr":
		v = (*withField)(nil)
	case "nil":
		v = nil
	case "int":
		v = len(b)
	case "nofield":
		v = withoutField{3}
	case "nofieldptr":
		v = &withoutField{4}
	case "wrongtype":
		v = wrongField{string(b)}
	default:
		return ""
	}
	res := guard(func() string {
		fs, err := uf.GetUnknownFields(v)
		if err != nil {
			return "err " + errClass(err)
		}
		return "ok " + lib.UfShow(fs)
	})
	if strings.HasPrefix(res, "PANIC other:reflect") {
		return "PANIC reflect"
	}
	return res
}

var getCount int

// ---- destination buffers

type bufKind struct {
	fill  int // -1 fresh (zero) memory, -2 pseudo-random non-zero bytes, else the byte value
	extra int // bytes beyond the requested length
}

// exact: for `uf rt` (the buffer has the advertised length, or more); roomy: on top of the generous bound
var exactBufs = []bufKind{{-1, 0}, {0xaa, 0}, {0x0a, 0}, {-2, 0}, {0xff, 1}, {0xaa, 64}, {-2, 7}}
var roomyBufs = []bufKind{{-1, 0}, {0xaa, 0}, {0x0a, 0}, {-2, 0}, {0xff, 13}}

// mkBuf: the garbage is a function of the op text (key) only, so that a replay writes into the same memory
func mkBuf(n int, k bufKind, key string) []byte {
	buf := make([]byte, max(n, 0)+k.extra)
	switch {
	case k.fill == -1:
	case k.fill == -2:
		h := uint64(14695981039346656037)
		for i := 0; i < len(key); i++ {
			h = (h ^ uint64(key[i])) * 1099511628211
		}
		h ^= uint64(k.extra+1) * 0x9e3779b97f4a7c15
		for i := range buf {
			h ^= h << 13
			h ^= h >> 7
			h ^= h << 17
			if buf[i] = byte(h >> 24); buf[i] == 0 {
				buf[i] = 0x55
			}
		}
	default:
		for i := range buf {
			buf[i] = byte(k.fill)
		}
	}
	return buf
}

// distinct runs f on every kind of buffer and returns the distinct results in order of first appearance
func distinct(kinds []bufKind, f func(k bufKind) string) []string {
	var out []string
next:
	for _, k := range kinds {
		r := f(k)
		for _, o := range out {
			if o == r {
				continue next
			}
		}
		out = append(out, r)
	}
	if len(out) > 1 {
		em.Count("dirty-buffer:results-differ")
	}
	return out
}

func runRt(b []byte) []string {
	var fs []uf.UnknownField
	res := guard(func() string {
		var err error
		fs, err = uf.ConvertUnknownFields(b)
		if err != nil {
			return "err " + errClass(err)
		}
		return ""
	})
	if res != "" {
		return []string{res}
	}
	key := lib.Hex(b)
	return distinct(exactBufs, func(k bufKind) string {
		res := guard(func() string {
			n, err := uf.UnknownFieldsLength(fs)
			if err != nil {
				return "err " + errClass(err)
			}
			buf := mkBuf(n, k, key)
			off, err := uf.WriteUnknownFields(buf, fs)
			if err != nil {
				return "err " + errClass(err)
			}
			return fmt.Sprintf("ok %s %d", lib.Hex(buf[:off]), n)
		})
		if strings.HasPrefix(res, "PANIC ") {
			return "W" + res
		}
		return res
	})
}

// tryLen / tryWrite: the other half of the (computed length, bytes written) pair every tree line carries;
// "-" when that half fails (error or panic). Write always gets a generously sized buffer here, so a wrong
// UnknownFieldsLength shows as a length/written mismatch instead of an index panic (the exact-length buffer
// is exercised by `uf rt`).
func tryLen(fs []uf.UnknownField) (s string, n int) {
	s, n = "-", -1
	func() {
		defer func() { recover() }()
		l, err := uf.UnknownFieldsLength(fs)
		if err == nil {
			s, n = fmt.Sprint(l), l
		}
	}()
	return
}

func bigBuf(fs []uf.UnknownField, n int, k bufKind, key string) []byte {
	return mkBuf(max(n, 0)+lib.UfSizeBound(fs), k, key)
}

func tryWrite(fs []uf.UnknownField, k bufKind, key string) (s string) {
	s = "-"
	func() {
		defer func() { recover() }()
		off, err := uf.WriteUnknownFields(bigBuf(fs, 0, k, key), fs)
		if err == nil {
			s = fmt.Sprint(off)
		}
	}()
	return
}

// uf len <tree> => ok <length> <bytes written | ->
func runLen(fs []uf.UnknownField, key string) []string {
	return distinct(roomyBufs, func(k bufKind) string {
		return guard(func() string {
			n, err := uf.UnknownFieldsLength(fs)
			if err != nil {
				return "err " + errClass(err)
			}
			return fmt.Sprintf("ok %d %s", n, tryWrite(fs, k, key))
		})
	})
}

// uf write <tree> => ok <hex written> <length | ->
func runWrite(fs []uf.UnknownField, key string) []string {
	return distinct(roomyBufs, func(k bufKind) string {
		return guard(func() string {
			ls, n := tryLen(fs)
			buf := bigBuf(fs, n, k, key)
			off, err := uf.WriteUnknownFields(buf, fs)
			if err != nil {
				return "err " + errClass(err)
			}
			return "ok " + lib.Hex(buf[:off]) + " " + ls
		})
	})
}

// uf wrt <tree> => ok <tree converted back> <length> <bytes written>   (nil: not replayed, see SKIP)
func runWrt(fs []uf.UnknownField, key string) []string {
	rs := distinct(roomyBufs, func(k bufKind) string {
		return guard(func() string {
			n, err := uf.UnknownFieldsLength(fs)
			if err != nil {
				return "err " + errClass(err)
			}
			buf := bigBuf(fs, n, k, key)
			off, err := uf.WriteUnknownFields(buf, fs)
			if err != nil {
				return "err " + errClass(err)
			}
			if mx, sum := lib.UfMaxDeclared(buf[:off]); mx > maxDeclared || sum > maxDeclaredSum {
				return "SKIP" // an ill-typed tree can write bytes that declare a hostile size: not replayed
			}
			back, err := uf.ConvertUnknownFields(buf[:off])
			if err != nil {
				return "err " + errClass(err)
			}
			return fmt.Sprintf("ok %s %d %d", lib.UfShow(back), n, off)
		})
	})
	if rs[0] == "SKIP" {
		return nil
	}
	out := rs[:0]
	for _, r := range rs {
		if r != "SKIP" {
			out = append(out, r)
		}
	}
	return out
}

func emitAll(rs []string, fields ...string) {
	for _, r := range rs {
		em.Line(r, fields...)
	}
}

func firstTok(s string) string {
	f := strings.Fields(s)
	if len(f) == 0 {
		return ""
	}
	if f[0] == "ok" {
		return "ok"
	}
	return strings.Join(f[:2], " ")
}

func lenClass(n int) string {
	switch {
	case n == 0:
		return "len:0"
	case n < 16:
		return "len:<16"
	case n < 256:
		return "len:<256"
	case n < 4096:
		return "len:<4096"
	}
	return "len:>=4096"
}

// emitBytes runs one byte string through convert and the bytes→tree→bytes round trip; with trees=true the
// tree it converts to is also fed to the tree entry points.
func emitBytes(class string, b []byte, trees bool) {
	if mx, sum := lib.UfMaxDeclared(b); mx > maxDeclared || sum > maxDeclaredSum {
		em.Count("guard:alloc-capped")
		return
	}
	em.Count("class:" + class)
	em.Count(lenClass(len(b)))
	hx := lib.Hex(b)
	res := runConvert(b)
	em.Count("convert:" + firstTok(res))
	em.Line(res, "uf", "convert", hx)
	emitAll(runRt(b), "uf", "rt", hx)
	// the reflect wrapper on the same bytes: pointer / value alternately, the misuse kinds now and then
	getCount++
	kind := getKinds[getCount%2]
	if getCount%37 == 0 {
		kind = getKinds[2+(getCount/37)%(len(getKinds)-2)]
	}
	gres := runGet(kind, b)
	em.Count("get:" + kind + ":" + firstTok(gres))
	em.Line(gres, "uf", "get", kind, hx)
	if trees && strings.HasPrefix(res, "ok ") {
		emitTree("converted", res[3:])
	}
}

func emitTree(class string, t string) {
	fs, ok := lib.UfParse(t)
	if !ok {
		panic("harness: bad tree text " + t)
	}
	em.Count("tree:" + class)
	rs := runWrite(fs, t)
	em.Count("write:" + firstTok(rs[0]))
	emitAll(rs, "uf", "write", t)
	rs = runLen(fs, t)
	em.Count("length:" + firstTok(rs[0]))
	emitAll(rs, "uf", "len", t)
	if rs = runWrt(fs, t); rs != nil {
		emitAll(rs, "uf", "wrt", t)
	} else {
		em.Count("guard:alloc-capped")
	}
}

// field appends one field header and a well-formed value
func field(g *lib.TGen, b []byte, t int, id uint16, depth int) []byte {
	g.Structs = append(g.Structs, len(b), len(b)+1, len(b)+2)
	b = append(b, byte(t), byte(id>>8), byte(id))
	return g.Value(b, t, depth)
}

func anyID(r *lib.Rng) uint16 {
	switch r.Intn(6) {
	case 0:
		return uint16(r.Pick(0, 1, 2, 0x7fff, 0x8000, 0xffff, 0x00ff, 0x0100))
	case 1:
		return uint16(r.Intn(16))
	}
	return uint16(r.U64())
}

// ---- direct tree generator (well typed by construction; then optionally broken) ----

type treeGen struct {
	r *lib.Rng
}

func tt(t int) thrift.TType { return thrift.TType(int8(uint8(t))) }

func (g *treeGen) value(t int, id int16, depth int) uf.UnknownField {
	r := g.r
	f := uf.UnknownField{ID: id, Type: tt(t)}
	pick := func() int {
		if depth <= 1 {
			return lib.ScalarTypes[r.Intn(len(lib.ScalarTypes))]
		}
		return lib.AllTypes[r.Intn(len(lib.AllTypes))]
	}
	ar := r.Pick(0, 1, 1, 2, 3)
	switch t {
	case lib.BOOL:
		f.Value = r.Bool()
	case lib.BYTE:
		f.Value = int8(r.U64())
	case lib.I16:
		f.Value = int16(r.U64())
	case lib.I32:
		f.Value = int32(r.U64())
	case lib.I64:
		f.Value = int64(r.U64())
	case lib.DOUBLE:
		f.Value = mathFromBits(r.U64())
	case lib.STRING:
		f.Value = string(r.Bytes(r.Pick(0, 1, 3, 20)))
	case lib.LIST, lib.SET:
		et := pick()
		f.ValType = tt(et)
		vs := make([]uf.UnknownField, 0, ar)
		for i := 0; i < ar; i++ {
			vs = append(vs, g.value(et, int16(i), depth-1))
		}
		f.Value = vs
	case lib.MAP:
		kt, vt := pick(), pick()
		f.KeyType, f.ValType = tt(kt), tt(vt)
		vs := make([]uf.UnknownField, 0, 2*ar)
		for i := 0; i < ar; i++ {
			vs = append(vs, g.value(kt, int16(i), depth-1), g.value(vt, int16(i), depth-1))
		}
		f.Value = vs
	case lib.STRUCT:
		vs := make([]uf.UnknownField, 0, ar)
		for i := 0; i < ar; i++ {
			vs = append(vs, g.value(pick(), int16(anyID(r)), depth-1))
		}
		f.Value = vs
	}
	return f
}

// nodes collects pointers to every node of the tree
func nodes(fs []uf.UnknownField, out *[]*uf.UnknownField) {
	for i := range fs {
		*out = append(*out, &fs[i])
		if c, ok := fs[i].Value.([]uf.UnknownField); ok {
			nodes(c, out)
		}
	}
}

// breakTree applies one ill-typing to a random node; returns its name
func (g *treeGen) breakTree(fs []uf.UnknownField) string {
	var ns []*uf.UnknownField
	nodes(fs, &ns)
	if len(ns) == 0 {
		return "none"
	}
	r := g.r
	n := ns[r.Intn(len(ns))]
	switch r.Intn(9) {
	case 0:
		n.Value = nil
		return "nil-value"
	case 1: // a payload of another dynamic type
		alts := []interface{}{true, int8(3), int16(4), int32(5), int64(6), 1.5, "str", []uf.UnknownField{}}
		n.Value = alts[r.Intn(len(alts))]
		return "other-dyn-type"
	case 2:
		n.Type = tt(r.Pick(0, 1, 5, 7, 9, 16, 0x7f, 0x80, 0xff))
		return "unknown-type"
	case 3:
		n.Type = tt(lib.AllTypes[r.Intn(len(lib.AllTypes))])
		return "other-type"
	case 4: // odd flat map
		if c, ok := n.Value.([]uf.UnknownField); ok && len(c) > 0 {
			n.Value = c[:len(c)-1]
			n.Type = tt(lib.MAP)
			return "odd-map"
		}
		n.Value = []uf.UnknownField{{ID: 0, Type: tt(lib.BYTE), Value: int8(1)}}
		n.Type = tt(lib.MAP)
		return "odd-map"
	case 5:
		n.KeyType = tt(r.Pick(2, 8, 11, 12, 0xff))
		return "stray-keytype"
	case 6:
		n.ValType = tt(r.Pick(2, 8, 11, 12, 0xff))
		return "stray-valtype"
	case 7:
		n.ID = int16(r.U64())
		return "other-id"
	default: // element of a type the parent's tag does not announce
		if c, ok := n.Value.([]uf.UnknownField); ok && len(c) > 0 {
			c[r.Intn(len(c))] = g.value(lib.AllTypes[r.Intn(len(lib.AllTypes))], int16(r.Intn(3)), 2)
			return "elem-type-mismatch"
		}
		return "none"
	}
}

func mathFromBits(u uint64) float64 { return math.Float64frombits(u) }

// nestTree wraps leaf in `levels` containers of kind `kind`
func nestTree(kind int, levels int, leaf uf.UnknownField) uf.UnknownField {
	cur := leaf
	for i := 0; i < levels; i++ {
		p := uf.UnknownField{ID: 0, Type: tt(kind)}
		cur.ID = 0
		switch kind {
		case lib.STRUCT:
			cur.ID = 1
			p.Value = []uf.UnknownField{cur}
		case lib.LIST, lib.SET:
			p.ValType = cur.Type
			p.Value = []uf.UnknownField{cur}
		case lib.MAP:
			p.KeyType, p.ValType = tt(lib.BYTE), cur.Type
			p.Value = []uf.UnknownField{{ID: 0, Type: tt(lib.BYTE), Value: int8(7)}, cur}
		}
		cur = p
	}
	return cur
}

func genCases(o *lib.Opts) {
	r := lib.NewRng(o.Seed)
	g := lib.NewTGen(r)
	tg := &treeGen{r}
	thorough := o.Tier == "thorough"
	n := o.N
	if n == 0 {
		n = 300
		if thorough {
			n = 6000
		}
	}
	// 0. the empty input and tiny inputs
	emitBytes("empty", nil, false)
	emitTree("empty-list", "[]")

	// 1. one field of every type, any ids; two and three in a row
	for _, t := range lib.AllTypes {
		for k := 0; k < 3; k++ {
			g.Budget = 1 << 12
			b := field(g, nil, t, anyID(r), 2)
			emitBytes("single-field", b, true)
			t2 := lib.AllTypes[r.Intn(len(lib.AllTypes))]
			b = field(g, b, t2, anyID(r), 2)
			emitBytes("two-fields", b, k == 0)
			b = field(g, b, lib.AllTypes[r.Intn(len(lib.AllTypes))], anyID(r), 1)
			emitBytes("three-fields", b, false)
		}
	}
	// 2. containers of every element type and every key/value combination, arities 0..3
	for _, et := range lib.AllTypes {
		for _, ar := range []int{0, 1, 2, 3} {
			for _, kind := range []int{lib.LIST, lib.SET} {
				g.Budget = 1 << 12
				b := []byte{byte(kind), byte(r.U64()), byte(r.U64()), byte(et)}
				b = binary.BigEndian.AppendUint32(b, uint32(ar))
				for i := 0; i < ar; i++ {
					b = g.Value(b, et, 2)
				}
				emitBytes("elem-combo", b, ar == 2)
			}
		}
		for _, vt := range lib.AllTypes {
			for _, ar := range []int{0, 1, 3} {
				g.Budget = 1 << 12
				b := []byte{lib.MAP, byte(r.U64()), byte(r.U64()), byte(et), byte(vt)}
				b = binary.BigEndian.AppendUint32(b, uint32(ar))
				for i := 0; i < ar; i++ {
					b = g.Value(b, et, 2)
					b = g.Value(b, vt, 2)
				}
				emitBytes("kv-combo", b, ar == 1)
			}
		}
	}
	// 3. several fields in a row inside nested structs: a container field followed by scalar fields
	//    (the scalar must not inherit the container's tags), for every container kind and position
	for _, ct := range []int{lib.MAP, lib.LIST, lib.SET, lib.STRUCT} {
		for _, st := range lib.ScalarTypes {
			for _, wrap := range []int{lib.STRUCT, lib.LIST, lib.MAP} {
				g.Budget = 1 << 10
				inner := field(g, nil, ct, anyID(r), 1)
				inner = field(g, inner, st, anyID(r), 0)
				inner = field(g, inner, lib.ScalarTypes[r.Intn(len(lib.ScalarTypes))], anyID(r), 0)
				inner = append(inner, 0)
				var b []byte
				switch wrap {
				case lib.STRUCT:
					b = append([]byte{lib.STRUCT, 0, 1}, inner...)
				case lib.LIST:
					b = append([]byte{lib.LIST, 0, 2, lib.STRUCT, 0, 0, 0, 2}, inner...)
					b = append(b, inner...)
				case lib.MAP:
					b = append([]byte{lib.MAP, 0, 3, lib.I32, lib.STRUCT, 0, 0, 0, 1, 0, 0, 0, 9}, inner...)
				}
				emitBytes("nested-struct-fields", b, st == lib.I32)
			}
		}
	}
	// 4. nesting depth 1..67 of every container kind (maxRecursionDepth = 65 levels, leaves included, is the limit)
	for _, kind := range []int{lib.STRUCT, lib.LIST, lib.SET, lib.MAP} {
		for lv := 1; lv <= 67; lv++ {
			if !thorough && lv > 3 && lv < 61 && lv%10 != 0 {
				continue
			}
			for _, leaf := range []int{lib.BYTE, lib.STRING, lib.BOOL} {
				t, v := lib.Nest(kind, lv-1, leaf, g.Value(nil, leaf, 0), kind == lib.MAP && lv%2 == 0)
				b := append([]byte{byte(t), 0, 5}, v...)
				emitBytes(fmt.Sprintf("depth:%d", depthClass(lv)), b, lv >= 63)
				if lv >= 63 { // a second field after the deep one
					emitBytes(fmt.Sprintf("depth:%d", depthClass(lv)), append(b, lib.I16, 0, 6, 1, 2), false)
				}
			}
			// the same shape built as a tree (the tree entry points have no depth limit of their own)
			leafF := uf.UnknownField{Type: tt(lib.I32), Value: int32(lv)}
			emitTree(fmt.Sprintf("depth:%d", depthClass(lv)), lib.UfShow([]uf.UnknownField{nestTree(kind, lv-1, leafF)}))
		}
	}
	// 5. random field sequences: valid, every cut point (capped), structural perturbations, splices
	for i := 0; i < n; i++ {
		g.MaxStr = r.Pick(4, 40, 40, 300)
		g.Canon = !r.Chance(1, 8) // sometimes non-canonical bools: outside C13's byte domain, model-vs-impl only
		g.Structs = g.Structs[:0]
		g.Budget = 1 << 12
		nf := r.Pick(1, 1, 2, 3, 5)
		var b []byte
		for k := 0; k < nf; k++ {
			b = field(g, b, lib.AllTypes[r.Intn(len(lib.AllTypes))], anyID(r), r.Pick(0, 1, 2, 3, 5))
		}
		structs := append([]int(nil), g.Structs...)
		if g.Canon {
			emitBytes("valid", b, true)
		} else {
			emitBytes("valid-noncanon-bool", b, false)
		}
		ncut := len(b)
		if ncut > 16 {
			ncut = 16
		}
		for c := 0; c < ncut; c++ {
			cut := c + 1
			if len(b) > 16 {
				cut = 1 + r.Intn(len(b)-1)
			}
			emitBytes("cut", b[:cut], false)
		}
		for k := 0; k < 6 && len(structs) > 0; k++ {
			pos := structs[r.Intn(len(structs))]
			m := append([]byte(nil), b...)
			m[pos] = lib.BoundaryBytes[r.Intn(len(lib.BoundaryBytes))]
			emitBytes("perturb", m, false)
		}
		if i%4 == 0 && len(b) > 3 {
			w := g.Gen(lib.AllTypes[r.Intn(len(lib.AllTypes))], 3)
			c := r.Intn(len(b))
			emitBytes("splice", append(append([]byte(nil), b[:c]...), w...), false)
			emitBytes("trailing-garbage", append(append([]byte(nil), b...), r.Bytes(r.Pick(1, 2, 3))...), false)
		}
		g.Canon = true
	}
	// 6. hostile declared sizes (only the guard sees the large ones)
	for _, sz := range []uint32{0x7fffffff, 0x80000000, 0xffffffff, 100001, 100000, 65536, 0x00010000} {
		for _, t := range []int{lib.STRING, lib.LIST, lib.SET, lib.MAP} {
			b := []byte{byte(t), 0, 1}
			switch t {
			case lib.MAP:
				b = append(b, lib.BYTE, byte(r.Pick(lib.BYTE, lib.STRING)))
			case lib.LIST, lib.SET:
				b = append(b, byte(r.Pick(lib.BYTE, lib.STRING, lib.I64, 0)))
			}
			b = binary.BigEndian.AppendUint32(b, sz)
			b = append(b, r.Bytes(r.Intn(12))...)
			emitBytes("hostile-size", b, false)
		}
	}
	// 7. trees built directly: well typed, and with one ill-typing
	for i := 0; i < n; i++ {
		nf := r.Pick(1, 1, 2, 3)
		fs := make([]uf.UnknownField, 0, nf)
		for k := 0; k < nf; k++ {
			fs = append(fs, tg.value(lib.AllTypes[r.Intn(len(lib.AllTypes))], int16(anyID(r)), r.Pick(1, 2, 3, 4)))
		}
		emitTree("well-typed", lib.UfShow(fs))
		for k := 0; k < 2; k++ {
			cp, _ := lib.UfParse(lib.UfShow(fs)) // deep copy
			what := tg.breakTree(cp)
			emitTree("broken:"+what, lib.UfShow(cp))
		}
	}
	// 7b. well-typed maps of every key/value type combination with 2 and 3 pairs (keys and values of different
	//     encoded sizes), bare and inside a struct / list: length vs bytes written
	for _, kt := range lib.AllTypes {
		for _, vt := range lib.AllTypes {
			for _, ar := range []int{2, 3} {
				m := uf.UnknownField{ID: int16(anyID(r)), Type: tt(lib.MAP), KeyType: tt(kt), ValType: tt(vt)}
				vs := make([]uf.UnknownField, 0, 2*ar)
				for i := 0; i < ar; i++ {
					vs = append(vs, tg.value(kt, int16(i), 2), tg.value(vt, int16(i), 2))
				}
				m.Value = vs
				emitTree("kv-combo", lib.UfShow([]uf.UnknownField{m}))
				if ar == 2 {
					inner := m
					inner.ID = 0
					l := uf.UnknownField{ID: 7, Type: tt(lib.LIST), ValType: tt(lib.MAP), Value: []uf.UnknownField{inner}}
					st := uf.UnknownField{ID: 8, Type: tt(lib.STRUCT), Value: []uf.UnknownField{m, l}}
					emitTree("kv-combo-nested", lib.UfShow([]uf.UnknownField{st, l}))
				}
			}
		}
	}
	// 8. bounded-exhaustive short inputs over a grammar alphabet
	alpha := []byte{0x00, 0x01, 0x02, 0x0b, 0x0c, 0x0d, 0x0f, 0x80, 0xff}
	maxLen := 4
	if thorough {
		maxLen = 5
	}
	var rec func(cur []byte)
	rec = func(cur []byte) {
		if len(cur) > 0 {
			emitBytes("exhaustive", cur, false)
		}
		if len(cur) == maxLen {
			return
		}
		for _, a := range alpha {
			rec(append(append([]byte(nil), cur...), a))
		}
	}
	rec(nil)
	// every first (type) byte with a few tails
	for t := 0; t < 256; t++ {
		emitBytes("typebyte", []byte{byte(t), 0, 1, 1, 2, 3, 4, 5, 6, 7, 8}, false)
		emitBytes("typebyte", []byte{lib.LIST, 0, 1, byte(t), 0, 0, 0, 1, 0, 0, 0, 0, 0, 0, 0, 0}, false)
		emitBytes("typebyte", []byte{lib.STRUCT, 0, 1, byte(t), 0, 0, 0, 1, 0, 0, 0, 0, 0, 0, 0, 0}, false)
	}
}

func depthClass(lv int) int {
	if lv < 62 {
		return lv / 10 * 10
	}
	return lv
}

func replay(lines [][]string) {
	for _, f := range lines {
		if len(f) == 4 && f[0] == "uf" && f[1] == "get" {
			b := lib.UnHex(f[3])
			if mx, sum := lib.UfMaxDeclared(b); mx > maxDeclared || sum > maxDeclaredSum {
				continue
			}
			if res := runGet(f[2], b); res != "" {
				em.Line(res, f...)
			}
			continue
		}
		if len(f) != 3 || f[0] != "uf" {
			continue
		}
		var rs []string
		switch f[1] {
		case "convert", "rt":
			b := lib.UnHex(f[2])
			if mx, sum := lib.UfMaxDeclared(b); mx > maxDeclared || sum > maxDeclaredSum {
				continue
			}
			if f[1] == "convert" {
				rs = []string{runConvert(b)}
			} else {
				rs = runRt(b)
			}
		case "write", "len", "wrt":
			fs, ok := lib.UfParse(f[2])
			if !ok {
				continue
			}
			switch f[1] {
			case "write":
				rs = runWrite(fs, f[2])
			case "len":
				rs = runLen(fs, f[2])
			default:
				rs = runWrt(fs, f[2])
			}
		default:
			continue
		}
		emitAll(rs, f...)
	}
}

func main() {
	o := lib.ParseOpts()
	em = lib.NewEmitter()
	if o.Replay != "" {
		replay(lib.ReadOpLines(o.Replay))
		em.Close(o.Stats)
		return
	}
	replay(lib.ReadOpLines(o.Corpus))
	genCases(o)
	em.Close(o.Stats)
}

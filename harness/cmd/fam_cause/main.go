// fam_cause: correspondence harness for C17 on the skip functions — which error comes back.
//
//	cause binary <t> <hex>        thrift.Binary.Skip
//	cause br     <t> <hex> <src>  thrift.BufferReader.Skip over a bytes reader ("b<cap>") or a
//	                              DefaultReader over a scripted source (injected errors src1..3 / EOF /
//	                              src9 = an error that wraps a protocol exception)
//	                              result on failure: err <e> is=<source errors errors.Is still finds>
//
// Results are canonicalised by lib.ErrStr: pe<typeId> for a protocol exception without cause,
// pe0(<inner>) for NewProtocolExceptionWithErr(inner), the bare name for an unwrapped error.
package main

import (
	"encoding/binary"
	"errors"
	"fmt"
	"io"
	"strconv"
	"strings"

	"github.com/cloudwego/gopkg/bufiox"
	"github.com/cloudwego/gopkg/protocol/thrift"
	"verifharness/lib"
)

const allocCap = 1 << 20

var em *lib.Emitter

func runBinary(t int, b []byte) string {
	return lib.Guard(func() string {
		n, err := thrift.Binary.Skip(b, thrift.TType(int8(t)))
		if err != nil {
			return "err " + lib.ErrStr(err)
		}
		return fmt.Sprintf("ok %d", n)
	})
}

// errWrapPE: injected source error number 9 — a transport-style error that WRAPS a protocol exception.
// It is not itself a *ProtocolException, so NewProtocolExceptionWithErr must wrap it (type id 0) and
// errors.Is(err, errWrapPE) must still hold.
var errWrapPE = fmt.Errorf("read tcp: %w", thrift.NewProtocolException(thrift.INVALID_DATA, "inner"))

func injErr(k int) error {
	if k == 9 {
		return errWrapPE
	}
	return lib.InjErr(k)
}

// causeSource: lib.Source with the family's own error class 9
type causeSource struct {
	Stream []byte
	Script lib.Script
	Pos    int
}

func (s *causeSource) Read(p []byte) (int, error) {
	if len(s.Script) == 0 {
		return 0, injErr(0)
	}
	r := s.Script[0]
	s.Script = s.Script[1:]
	k := r.K
	if k > len(p) {
		k = len(p)
	}
	if k > len(s.Stream)-s.Pos {
		k = len(s.Stream) - s.Pos
	}
	copy(p, s.Stream[s.Pos:s.Pos+k])
	s.Pos += k
	if r.Err >= 0 {
		return k, injErr(r.Err)
	}
	return k, nil
}

// errStr: lib.ErrStr, with source error 9 printed by name (directly, or as the Unwrap() of an exception)
func errStr(err error) string {
	if err == errWrapPE {
		return "src9"
	}
	if pe, ok := err.(*thrift.ProtocolException); ok && pe.Unwrap() == errWrapPE {
		return fmt.Sprintf("pe%d(src9)", pe.TypeId())
	}
	return lib.ErrStr(err)
}

// isObs: the errors.Is observation — which of the source's error values the returned error still
// matches, in a fixed order ("-" = none)
func isObs(err error) string {
	var hit []string
	for _, c := range []struct {
		name string
		e    error
	}{{"src9", errWrapPE}, {"src1", lib.InjErr(1)}, {"src2", lib.InjErr(2)}, {"src3", lib.InjErr(3)},
		{"eof", io.EOF}, {"noprogress", io.ErrNoProgress}} {
		if errors.Is(err, c.e) {
			hit = append(hit, c.name)
		}
	}
	if len(hit) == 0 {
		return "-"
	}
	return strings.Join(hit, "+")
}

func runBR(t int, b []byte, src string) string {
	return lib.Guard(func() string {
		var r bufiox.Reader
		if src[0] == 'b' {
			c, _ := strconv.Atoi(src[1:])
			buf := make([]byte, len(b), c)
			copy(buf, b)
			r = bufiox.NewBytesReader(buf)
		} else {
			r = bufiox.NewDefaultReader(&causeSource{Stream: b, Script: lib.ParseScript(src)})
		}
		br := thrift.NewBufferReader(r)
		err := br.Skip(thrift.TType(int8(t)))
		if err != nil {
			return "err " + errStr(err) + " is=" + isObs(err)
		}
		return fmt.Sprintf("ok %d", br.Readn())
	})
}

func kind(res string) string {
	if i := strings.Index(res, " is="); i >= 0 {
		res = res[:i]
	}
	for i := 0; i < len(res); i++ {
		if res[i] == ' ' {
			if res[:i] == "ok" {
				return "ok"
			}
			return res
		}
	}
	return res
}

func emitBin(class string, t int, b []byte) {
	em.Count("class:" + class)
	em.Count(fmt.Sprintf("type:%d", t))
	res := runBinary(t, b)
	em.Count("binary:" + kind(res))
	em.Line(res, "cause", "binary", strconv.Itoa(t), lib.Hex(b))
}

func emitBR(class string, t int, b []byte, src string) {
	if lib.MaxRequest(t, b) > allocCap {
		em.Count("guard:alloc-capped")
		return
	}
	em.Count("brclass:" + class)
	res := runBR(t, b, src)
	em.Count("br:" + kind(res))
	em.Line(res, "cause", "br", strconv.Itoa(t), lib.Hex(b), src)
}

func bytesSrc(r *lib.Rng, n int) string {
	c := n + r.Pick(0, 0, 1, 7, 100)
	if c == 0 {
		c = r.Pick(1, 8)
	}
	return "b" + strconv.Itoa(c)
}

// injectAt: the source delivers exactly p bytes, then fails with error e (0 = io.EOF, k = src k),
// in one of several shapes (error together with the last data, error on its own, 1-byte chunks,
// a few empty reads before the error).
func injectAt(r *lib.Rng, p, e int) lib.Script {
	var s lib.Script
	switch r.Intn(4) {
	case 0: // data and error in the same Read
		if p > 0 {
			return lib.Script{{K: p, Err: e}}
		}
		return lib.Script{{K: 0, Err: e}}
	case 1: // data, then the error on its own
		if p > 0 {
			s = append(s, lib.Resp{K: p, Err: -1})
		}
		return append(s, lib.Resp{K: 0, Err: e})
	case 2: // 1-byte chunks
		for i := 0; i < p; i++ {
			s = append(s, lib.Resp{K: 1, Err: -1})
		}
		return append(s, lib.Resp{K: 0, Err: e})
	default: // empty reads in between
		if p > 1 {
			s = append(s, lib.Resp{K: p - 1, Err: -1})
		}
		for z := r.Pick(1, 2, 5); z > 0; z-- {
			s = append(s, lib.Resp{K: 0, Err: -1})
		}
		if p > 0 {
			s = append(s, lib.Resp{K: 1, Err: -1})
		}
		return append(s, lib.Resp{K: 0, Err: e})
	}
}

// both runs one input on Binary.Skip and on BufferReader.Skip (bytes reader + one random script)
func both(r *lib.Rng, class string, t int, b []byte) {
	emitBin(class, t, b)
	emitBR(class, t, b, bytesSrc(r, len(b)))
	emitBR(class, t, b, lib.GenScript(r, len(b)).String())
}

// faults: injected source errors at positions of the stream
func faults(r *lib.Rng, class string, t int, b []byte, maxPos int) {
	n := len(b) + 1
	for i := 0; i < n && i < maxPos; i++ {
		p := i
		if n > maxPos {
			p = r.Intn(n)
		}
		e := r.Pick(0, 1, 2, 3, 9)
		em.Count(fmt.Sprintf("inject:e%d", e))
		emitBR(class, t, b, injectAt(r, p, e).String())
	}
}

var oddTypes = []int{0, 1, 5, 7, 9, 16, 0x7f, 0x80, 0xff}

func genCases(o *lib.Opts) {
	r := lib.NewRng(o.Seed)
	g := lib.NewTGen(r)
	thorough := o.Tier == "thorough"
	n := o.N
	if n == 0 {
		n = 250
		if thorough {
			n = 12000
		}
	}
	// 1. every requested type byte, on empty / short / longer input
	for t := 0; t < 256; t++ {
		emitBin("typebyte", t, nil)
		emitBin("typebyte", t, []byte{1, 2, 3})
		emitBin("typebyte", t, []byte{byte(t), 0, 0, 0, 1, byte(t), 0, 0, 0})
		if t%8 == 0 || t < 20 {
			emitBR("typebyte", t, nil, "b0")
			emitBR("typebyte", t, nil, "0e2")
			emitBR("typebyte", t, []byte{1, 2, 3}, bytesSrc(r, 3))
			emitBR("typebyte", t, []byte{byte(t), 0, 0, 0, 1, byte(t), 0, 0, 0}, lib.GenScript(r, 9).String())
		}
	}
	// 2. element / key / value types incl. codes that are no Thrift type, arities 0..2, every cut
	ets := append(append([]int(nil), lib.AllTypes...), oddTypes...)
	val := func(b []byte, t int) []byte {
		if lib.FixedSize(t) > 0 || t == lib.STRING || t == lib.STRUCT || t == lib.MAP || t == lib.SET || t == lib.LIST {
			return g.Value(b, t, 1)
		}
		return append(b, 0x11, 0x22) // something to look at for an unknown type
	}
	for _, et := range ets {
		for _, ar := range []int{0, 1, 2} {
			b := binary.BigEndian.AppendUint32([]byte{byte(et)}, uint32(ar))
			for i := 0; i < ar; i++ {
				b = val(b, et)
			}
			k := r.Pick(lib.LIST, lib.SET)
			both(r, "elem-combo", k, b)
			for cut := 0; cut < len(b) && cut < 14; cut++ {
				emitBin("elem-combo-cut", k, b[:cut])
			}
			if ar == 1 {
				faults(r, "elem-combo-fault", k, b, 8)
			}
			// struct with one field of that type
			sb := val([]byte{byte(et), 0, 1}, et)
			sb = append(sb, 0)
			both(r, "field-combo", lib.STRUCT, sb)
			for cut := 0; cut < len(sb) && cut < 14; cut++ {
				emitBin("field-combo-cut", lib.STRUCT, sb[:cut])
			}
		}
		for _, vt := range ets {
			for _, ar := range []int{0, 1, 2} {
				if ar == 2 && !thorough && r.Chance(2, 3) {
					continue
				}
				b := binary.BigEndian.AppendUint32([]byte{byte(et), byte(vt)}, uint32(ar))
				for i := 0; i < ar; i++ {
					b = val(b, et)
					b = val(b, vt)
				}
				both(r, "kv-combo", lib.MAP, b)
				if ar == 1 { // truncations of the pair: the overshoot shapes of Binary.Skip
					for cut := 1; cut <= 10 && cut < len(b); cut++ {
						emitBin("kv-combo-cut", lib.MAP, b[:len(b)-cut])
					}
					if r.Chance(1, 4) {
						faults(r, "kv-combo-fault", lib.MAP, b, 6)
					}
				}
			}
		}
	}
	// 3. nesting depths around the limit; the innermost value is valid / of unknown type / has a
	//    negative size / is cut — which cause wins is the point
	type leaf struct {
		t int
		b []byte
	}
	leaves := []leaf{
		{lib.BYTE, []byte{7}},
		{lib.STRING, []byte{0, 0, 0, 1, 0x41}},
		{lib.STRING, []byte{0x80, 0, 0, 0}},
		{lib.STRING, []byte{0, 0, 0, 9, 0x41}},
		{lib.LIST, []byte{lib.BYTE, 0, 0, 0, 0}},
		{lib.LIST, []byte{lib.BYTE, 0xff, 0xff, 0xff, 0xff}},
		{lib.LIST, []byte{lib.BYTE, 0, 0}},
		{lib.MAP, []byte{lib.STRING, lib.I64, 0, 0, 0, 1, 0, 0, 0, 0, 0x55}},
		{16, []byte{1, 2}},
		{0xff, nil},
		{lib.STRUCT, nil},
	}
	for _, kd := range []int{lib.STRUCT, lib.LIST, lib.SET, lib.MAP} {
		for lv := 1; lv <= 68; lv++ {
			if !thorough && lv > 3 && lv < 61 && lv%16 != 0 {
				continue
			}
			for _, lf := range leaves {
				for _, keyNest := range []bool{false, true} {
					if keyNest && kd != lib.MAP {
						continue
					}
					t, b := lib.Nest(kd, lv, lf.t, lf.b, keyNest)
					emitBin("depth", t, b)
					emitBR("depth", t, b, bytesSrc(r, len(b)))
					if lv >= 62 && lv <= 66 {
						emitBR("depth", t, b, lib.GenScript(r, len(b)).String())
						faults(r, "depth-fault", t, b, 3)
						// cut right before / inside the innermost value
						for _, back := range []int{1, len(lf.b), len(lf.b) + 1, len(lf.b) + 3} {
							if back > 0 && back <= len(b) {
								emitBin("depth-cut", t, b[:len(b)-back])
								emitBR("depth-cut", t, b[:len(b)-back], bytesSrc(r, len(b)-back))
							}
						}
					}
				}
			}
		}
	}
	// 4. hostile sizes
	for _, sz := range []uint32{0x7fffffff, 0x80000000, 0x80000001, 0xffffffff, 0x00100001, 0x7ffffff0} {
		for _, t := range []int{lib.STRING, lib.LIST, lib.SET, lib.MAP} {
			for rep := 0; rep < 3; rep++ {
				var b []byte
				switch t {
				case lib.STRING:
					b = binary.BigEndian.AppendUint32(nil, sz)
				case lib.MAP:
					b = binary.BigEndian.AppendUint32([]byte{byte(r.Pick(lib.BYTE, lib.STRING, lib.LIST)), byte(r.Pick(lib.BYTE, lib.STRING, 16))}, sz)
				default:
					b = binary.BigEndian.AppendUint32([]byte{byte(r.Pick(lib.BYTE, lib.STRING, lib.I64, lib.STRUCT, 5))}, sz)
				}
				b = append(b, r.Bytes(r.Intn(12))...)
				both(r, "hostile-size", t, b)
			}
		}
	}
	// 5. random valid values: cut points, boundary values on structural bytes, splices, source faults
	for i := 0; i < n; i++ {
		t := lib.AllTypes[r.Intn(len(lib.AllTypes))]
		depth := r.Pick(1, 2, 3, 4, 6)
		g.MaxStr = r.Pick(4, 40, 40, 300)
		v := g.Gen(t, depth)
		structs := append([]int(nil), g.Structs...)
		b := append(append([]byte(nil), v...), r.Bytes(r.Pick(0, 0, 1, 5))...)
		both(r, "valid", t, b)
		faults(r, "valid-fault", t, v, 6)
		ncut := len(v)
		if ncut > 20 {
			ncut = 20
		}
		for c := 0; c < ncut; c++ {
			cut := c
			if len(v) > 20 {
				cut = r.Intn(len(v))
			}
			emitBin("cut", t, v[:cut])
			if c%5 == 0 {
				emitBR("cut", t, v[:cut], bytesSrc(r, cut))
				emitBR("cut", t, v[:cut], lib.GenScript(r, cut).String())
			}
		}
		for k := 0; k < 8 && len(structs) > 0; k++ {
			pos := structs[r.Intn(len(structs))]
			m := append([]byte(nil), b...)
			m[pos] = lib.BoundaryBytes[r.Intn(len(lib.BoundaryBytes))]
			emitBin("perturb", t, m)
			if k%2 == 0 {
				emitBR("perturb", t, m, bytesSrc(r, len(m)))
				emitBR("perturb", t, m, lib.GenScript(r, len(m)).String())
			}
			if k == 0 {
				faults(r, "perturb-fault", t, m, 3)
			}
		}
		if i%4 == 0 && len(v) > 2 {
			w := g.Gen(lib.AllTypes[r.Intn(len(lib.AllTypes))], 3)
			c := r.Intn(len(v))
			m := append(append([]byte(nil), v[:c]...), w...)
			both(r, "splice", t, m)
		}
	}
	// 6. long strings across the reader's buffer sizes, source failing inside them
	for _, L := range []int{4092, 4100, 8188} {
		b := binary.BigEndian.AppendUint32(nil, uint32(L))
		b = append(b, r.Bytes(L)...)
		both(r, "longstr", lib.STRING, b)
		for _, p := range []int{0, 3, 4, 5, 4095, 4096, 4097, L + 3} {
			for _, e := range []int{0, 2} {
				emitBR("longstr-fault", lib.STRING, b, lib.Script{{K: p, Err: -1}, {K: 0, Err: e}}.String())
			}
		}
	}
	// 7. a source that makes no progress
	for _, z := range []int{99, 100, 101, 250} {
		b := []byte{lib.BYTE, 0, 0, 0, 2, 1, 2}
		s := lib.Script{{K: 5, Err: -1}}
		for i := 0; i < z; i++ {
			s = append(s, lib.Resp{K: 0, Err: -1})
		}
		s = append(s, lib.Resp{K: 2, Err: -1})
		emitBR("noprogress", lib.LIST, b, s.String())
	}
	// 8. bounded-exhaustive short inputs over a grammar alphabet
	alpha := []byte{0x00, 0x01, 0x02, 0x0b, 0x0c, 0x0d, 0x0f, 0x10, 0x80, 0xff}
	maxLen := 3
	if thorough {
		maxLen = 5
	}
	var rec func(cur []byte)
	rec = func(cur []byte) {
		for _, t := range []int{lib.STRING, lib.STRUCT, lib.MAP, lib.LIST, lib.I16, 16} {
			emitBin("exhaustive", t, cur)
			if len(cur) <= 2 || r.Chance(1, 8) {
				emitBR("exhaustive", t, cur, bytesSrc(r, len(cur)))
			}
		}
		if len(cur) == maxLen {
			return
		}
		for _, a := range alpha {
			rec(append(append([]byte(nil), cur...), a))
		}
	}
	rec(nil)
}

func replay(lines [][]string) {
	for _, f := range lines {
		if len(f) < 4 || f[0] != "cause" {
			continue
		}
		t, _ := strconv.Atoi(f[2])
		b := lib.UnHex(f[3])
		switch {
		case f[1] == "binary" && len(f) == 4:
			em.Line(runBinary(t, b), f...)
		case f[1] == "br" && len(f) == 5:
			if lib.MaxRequest(t, b) > allocCap {
				continue
			}
			em.Line(runBR(t, b, f[4]), f...)
		}
	}
}

func main() {
	o := lib.ParseOpts()
	em = lib.NewEmitter()
	if o.Replay != "" {
		replay(lib.ReadOpLines(o.Replay))
		em.Close(o.Stats)
		return
	}
	replay(lib.ReadOpLines(o.Corpus))
	genCases(o)
	em.Close(o.Stats)
}

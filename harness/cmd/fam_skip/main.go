// fam_skip: correspondence harness for the five skipping facilities (C02, C08, C03, C17).
package main

import (
	"encoding/binary"
	"fmt"
	"strconv"

	"github.com/cloudwego/gopkg/bufiox"
	"github.com/cloudwego/gopkg/protocol/thrift"
	"verifharness/lib"
)

const allocCap = 1 << 20

var em *lib.Emitter

func runBinary(t int, b []byte) string {
	return lib.Guard(func() string {
		n, err := thrift.Binary.Skip(b, thrift.TType(int8(t)))
		if err != nil {
			return "err " + lib.ErrStr(err)
		}
		return fmt.Sprintf("ok %d", n)
	})
}

// runBinaryStack: Binary.Skip on a buffer that lives on the stack of a fresh goroutine (small initial stack), so
// that the recursion of a nested value moves the stack — and the buffer with it — while skipping (finding F17:
// the end of the buffer used to be kept as a uintptr, which the runtime does not adjust)
func runBinaryStack(t int, b []byte) string {
	if len(b) > stackBuf {
		return "bad-op"
	}
	done := make(chan string, 1)
	go func() { done <- skipOnStack(t, b) }()
	return <-done
}

const stackBuf = 1024

//go:noinline
func skipOnStack(t int, b []byte) string {
	var buf [stackBuf]byte
	n := copy(buf[:], b)
	return lib.Guard(func() string {
		k, err := thrift.Binary.Skip(buf[:n], thrift.TType(int8(t)))
		if err != nil {
			return "err " + lib.ErrStr(err)
		}
		return fmt.Sprintf("ok %d", k)
	})
}

func mkReader(b []byte, src string) (bufiox.Reader, *lib.Source) {
	if src[0] == 'b' {
		c, _ := strconv.Atoi(src[1:])
		buf := make([]byte, len(b), c)
		copy(buf, b)
		return bufiox.NewBytesReader(buf), nil
	}
	s := lib.NewSource(b, lib.ParseScript(src))
	return bufiox.NewDefaultReader(s), s
}

func runBR(t int, b []byte, src string) string {
	return lib.Guard(func() string {
		r, _ := mkReader(b, src)
		br := thrift.NewBufferReader(r)
		err := br.Skip(thrift.TType(int8(t)))
		if err != nil {
			return "err " + lib.ErrStr(err)
		}
		return fmt.Sprintf("ok %d", br.Readn())
	})
}

func runTplBytes(t int, b []byte) string {
	return lib.Guard(func() string {
		d := thrift.NewBytesSkipDecoder(b)
		got, err := d.Next(thrift.TType(int8(t)))
		if err != nil {
			return "err " + lib.ErrStr(err)
		}
		// remaining bytes of the decoder: count how many single BYTE values can still be taken
		rem := 0
		for rem <= len(b) {
			if _, e := d.Next(thrift.BYTE); e != nil {
				break
			}
			rem++
		}
		return fmt.Sprintf("ok %s %d", lib.Hex(got), rem)
	})
}

func runTplBufiox(t int, b []byte, src string) string {
	return lib.Guard(func() string {
		r, _ := mkReader(b, src)
		d := thrift.NewSkipDecoder(r)
		got, err := d.Next(thrift.TType(int8(t)))
		if err != nil {
			return "err " + lib.ErrStr(err)
		}
		return fmt.Sprintf("ok %s %d", lib.Hex(got), r.ReadLen())
	})
}

func runTplReader(t int, b []byte, src string) string {
	return lib.Guard(func() string {
		s := lib.NewSource(b, lib.ParseScript(src))
		d := thrift.NewReaderSkipDecoder(s)
		got, err := d.Next(thrift.TType(int8(t)))
		if err != nil {
			return "err " + lib.ErrStr(err)
		}
		return fmt.Sprintf("ok %s %d", lib.Hex(got), s.Pos)
	})
}

// runReuse: a decoder object is used on (t1,b1) first — which may fail part-way — then reset / released and
// re-obtained, and used on (t2,b2). The second use must behave like a fresh decoder.
func runReuse(kind string, t1 int, b1 []byte, t2 int, b2 []byte, src2 string) string {
	return lib.Guard(func() string {
		switch kind {
		case "bytes-reset", "bytes-pool":
			d := thrift.NewBytesSkipDecoder(b1)
			_, _ = d.Next(thrift.TType(int8(t1)))
			if kind == "bytes-reset" {
				d.Reset(b2)
			} else {
				d.Release()
				d = thrift.NewBytesSkipDecoder(b2)
			}
			got, err := d.Next(thrift.TType(int8(t2)))
			if err != nil {
				return "err " + lib.ErrStr(err)
			}
			rem := 0
			for rem <= len(b2) {
				if _, e := d.Next(thrift.BYTE); e != nil {
					break
				}
				rem++
			}
			return fmt.Sprintf("ok %s %d", lib.Hex(got), rem)
		case "bufiox-pool":
			r1 := bufiox.NewBytesReader(append([]byte(nil), b1...))
			d := thrift.NewSkipDecoder(r1)
			_, _ = d.Next(thrift.TType(int8(t1)))
			d.Release()
			r2, _ := mkReader(b2, src2)
			d2 := thrift.NewSkipDecoder(r2)
			got, err := d2.Next(thrift.TType(int8(t2)))
			if err != nil {
				return "err " + lib.ErrStr(err)
			}
			return fmt.Sprintf("ok %s %d", lib.Hex(got), r2.ReadLen())
		case "bufiox-again":
			// ONE SkipDecoder over a bytes-backed reader holding b2: a first Next(t1) that fails part-way (it only
			// peeks, so nothing is consumed), then — without Release — Next(t2) must behave like a fresh decoder on b2
			r2, _ := mkReader(b2, src2)
			d := thrift.NewSkipDecoder(r2)
			if _, err := d.Next(thrift.TType(int8(t1))); err == nil {
				return "first-ok"
			}
			got, err := d.Next(thrift.TType(int8(t2)))
			if err != nil {
				return "err " + lib.ErrStr(err)
			}
			return fmt.Sprintf("ok %s %d", lib.Hex(got), r2.ReadLen())
		case "reader-reset", "reader-pool":
			d := thrift.NewReaderSkipDecoder(lib.NewSource(b1, benignScript(lib.NewRng(7), len(b1))))
			_, _ = d.Next(thrift.TType(int8(t1)))
			s2 := lib.NewSource(b2, lib.ParseScript(src2))
			if kind == "reader-reset" {
				d.Reset(s2)
			} else {
				d.Release()
				d = thrift.NewReaderSkipDecoder(s2)
			}
			got, err := d.Next(thrift.TType(int8(t2)))
			if err != nil {
				return "err " + lib.ErrStr(err)
			}
			return fmt.Sprintf("ok %s %d", lib.Hex(got), s2.Pos)
		}
		return "bad-kind"
	})
}

// runSeq2: two Next calls on one BytesSkipDecoder without Reset
func runSeq2(t1, t2 int, b []byte) string {
	return lib.Guard(func() string {
		d := thrift.NewBytesSkipDecoder(b)
		one := func(t int, left int) (string, int) {
			got, err := d.Next(thrift.TType(int8(t)))
			if err != nil {
				return "err " + lib.ErrStr(err), left
			}
			return fmt.Sprintf("ok %s %d", lib.Hex(got), left-len(got)), left - len(got)
		}
		r1, left := one(t1, len(b))
		r2, _ := one(t2, left)
		return r1 + " | " + r2
	})
}

func emitReuse(r *lib.Rng, t1 int, b1 []byte, t2 int, b2 []byte) {
	if lib.MaxRequest(t1, b1) > allocCap || lib.MaxRequest(t2, b2) > allocCap {
		return
	}
	for _, kind := range []string{"bytes-reset", "bytes-pool", "bufiox-pool", "reader-reset", "reader-pool"} {
		src := "-"
		switch kind {
		case "bufiox-pool":
			if r.Bool() {
				src = "b" + strconv.Itoa(len(b2)+r.Pick(0, 3))
				if len(b2) == 0 {
					src = "b1"
				}
			} else {
				src = benignScript(r, len(b2)).String()
			}
		case "reader-reset", "reader-pool":
			src = benignScript(r, len(b2)).String()
		}
		em.Count("reuse:" + kind)
		em.Line(runReuse(kind, t1, b1, t2, b2, src), "skipreuse", kind, strconv.Itoa(t1), lib.Hex(b1), strconv.Itoa(t2), lib.Hex(b2), src)
	}
	// the same decoder object again, without Release: first Next with another type on the same bytes, kept only
	// when that first call fails (seeded changes C02_w6_2 / C08_w6_1: the peek offset survived a failed Next)
	for _, ta := range []int{12, 15, 13, 11, 14, int(r.Intn(256))} {
		if ta == t2 || lib.MaxRequest(ta, b2) > allocCap {
			continue
		}
		src := "b" + strconv.Itoa(len(b2)+r.Pick(0, 0, 5))
		if len(b2) == 0 {
			src = "b1"
		}
		res := runReuse("bufiox-again", ta, b2, t2, b2, src)
		if res == "first-ok" {
			em.Count("reuse:bufiox-again-first-ok(skipped)")
			continue
		}
		em.Count("reuse:bufiox-again")
		em.Line(res, "skipreuse", "bufiox-again", strconv.Itoa(ta), "-", strconv.Itoa(t2), lib.Hex(b2), src)
	}
}

// emit runs one input on every skipper (subject to the allocation guard)
func emit(r *lib.Rng, class string, t int, b []byte, streams bool) {
	em.Count("class:" + class)
	em.Count(fmt.Sprintf("type:%d", t))
	switch {
	case len(b) < 16:
		em.Count("len:<16")
	case len(b) < 256:
		em.Count("len:<256")
	case len(b) < 4096:
		em.Count("len:<4096")
	default:
		em.Count("len:>=4096")
	}
	ts, hx := strconv.Itoa(t), lib.Hex(b)
	res := runBinary(t, b)
	em.Count("binary:" + firstTok(res))
	em.Line(res, "skip", "binary", ts, hx, "-")
	res = runTplBytes(t, b)
	em.Line(res, "skip", "tplbytes", ts, hx, "-")
	if len(b) <= stackBuf {
		res = runBinaryStack(t, b)
		em.Count("binstack:" + firstTok(res))
		em.Line(res, "skip", "binstack", ts, hx, "-")
	}
	if !streams {
		return
	}
	if lib.MaxRequest(t, b) > allocCap {
		em.Count("guard:alloc-capped")
		return
	}
	// bytes-backed readers with exact and spare (power-of-two / odd) capacity
	c := len(b) + r.Pick(0, 0, 1, 7, 100)
	if r.Chance(1, 4) {
		c = pow2(len(b))
	}
	if c == 0 {
		c = r.Pick(0, 1, 8)
	}
	bs := "b" + strconv.Itoa(c)
	em.Line(runBR(t, b, bs), "skip", "br", ts, hx, bs)
	em.Line(runTplBufiox(t, b, bs), "skip", "tplbufiox", ts, hx, bs)
	// scripted sources: one benign (everything deliverable), one arbitrary, one multi-byte chunked
	// (final chunk possibly together with an error) and one whose error arrives on the decoder's
	// last read (data + io.EOF completing the value)
	for _, sc := range []lib.Script{benignScript(r, len(b)), lib.GenScript(r, len(b)),
		chunkScript(r, len(b)), lastReadErrScript(r, t, b)} {
		s := sc.String()
		em.Count("script:" + scriptClass(sc))
		res = runBR(t, b, s)
		em.Count("br:" + firstTok(res))
		em.Line(res, "skip", "br", ts, hx, s)
		em.Line(runTplBufiox(t, b, s), "skip", "tplbufiox", ts, hx, s)
		em.Line(runTplReader(t, b, s), "skip", "tplreader", ts, hx, s)
	}
}

func pow2(n int) int {
	c := 1
	for c < n {
		c *= 2
	}
	return c
}

func firstTok(s string) string {
	for i := 0; i < len(s); i++ {
		if s[i] == ' ' {
			if s[:i] == "err" {
				return s
			}
			return s[:i]
		}
	}
	return s
}

func scriptClass(s lib.Script) string {
	hasErr, zeros, mid := false, 0, false
	for i, r := range s {
		if r.Err >= 0 {
			hasErr = true
			if i != len(s)-1 {
				mid = true
			}
		}
		if r.K == 0 {
			zeros++
		}
	}
	c := "plain"
	if hasErr {
		c = "final-err"
	}
	if mid {
		c = "mid-err"
	}
	if zeros > 0 {
		c += "+zeros"
	}
	return c
}

// chunkScript: chunks of arbitrary size >= 1 covering the stream, no empty reads, an error (if any)
// only on the last chunk together with its data (C04 SteadyChunks shape; for the plain reader the
// verdict decides by replaying the decoder's requests).
func chunkScript(r *lib.Rng, total int) lib.Script {
	var s lib.Script
	left := total
	for left > 0 {
		k := r.Range(1, left)
		if r.Chance(1, 3) {
			k = r.Pick(1, 2, 3, 4, 5, 8, 16, 64)
		}
		if k > left {
			k = left
		}
		left -= k
		s = append(s, lib.Resp{K: k, Err: -1})
	}
	if len(s) > 0 && r.Chance(2, 3) {
		s[len(s)-1].Err = r.Pick(0, 0, 0, 2)
	}
	return s
}

// lastReadErrScript: every Read hands over exactly what is asked for; the Read that completes the
// value returns its data together with an error. The number of Reads is measured on a dry run of
// ReaderSkipDecoder over an error-free source.
func lastReadErrScript(r *lib.Rng, t int, b []byte) lib.Script {
	calls := 0
	lib.Guard(func() string {
		var dry lib.Script
		for i := 0; i <= len(b)+1; i++ {
			dry = append(dry, lib.Resp{K: 1 << 20, Err: -1})
		}
		src := lib.NewSource(b, dry)
		d := thrift.NewReaderSkipDecoder(src)
		if _, err := d.Next(thrift.TType(int8(t))); err == nil {
			calls = src.Calls
		}
		d.Release()
		return ""
	})
	var s lib.Script
	for i := 0; i < calls; i++ {
		s = append(s, lib.Resp{K: 1 << 20, Err: -1})
	}
	if calls > 0 {
		s[calls-1].Err = r.Pick(0, 0, 3)
	} else { // not a value (or nothing to read): plain chunks
		return chunkScript(r, len(b))
	}
	return s
}

// benignScript: every byte deliverable whatever the room: 1-byte or huge chunks, short zero runs,
// optionally the last byte together with an error.
func benignScript(r *lib.Rng, total int) lib.Script {
	var s lib.Script
	if r.Bool() { // 1-byte chunks
		for i := 0; i < total; i++ {
			if r.Chance(1, 30) {
				for z := r.Pick(1, 2, 99); z > 0; z-- {
					s = append(s, lib.Resp{K: 0, Err: -1})
				}
			}
			s = append(s, lib.Resp{K: 1, Err: -1})
		}
		if total > 0 && r.Bool() {
			s[len(s)-1].Err = r.Pick(0, 0, 2)
		}
		return s
	}
	for i := 0; i < total; i++ { // "as much as fits" chunks, one entry per byte is always enough
		s = append(s, lib.Resp{K: 1 << 20, Err: -1})
	}
	return s
}

func genCases(o *lib.Opts) {
	r := lib.NewRng(o.Seed)
	g := lib.NewTGen(r)
	n := o.N
	if n == 0 {
		n = 400
		if o.Tier == "thorough" {
			n = 20000
		}
	}
	// 1. every requested type byte on a few fixed inputs (incl. >= 0x80)
	for t := 0; t < 256; t++ {
		emit(r, "typebyte", t, []byte{1, 2, 3}, t%16 == 0)
		emit(r, "typebyte", t, []byte{byte(t), 0, 0, 0, 1, byte(t), 0, 0}, false)
	}
	// 2. all 11 element types and 11x11 key/value combinations, arities 0,1,2,3
	for _, et := range lib.AllTypes {
		for _, ar := range []int{0, 1, 2, 3} {
			for _, kind := range []int{lib.LIST, lib.SET} {
				b := []byte{byte(et)}
				b = binary.BigEndian.AppendUint32(b, uint32(ar))
				for i := 0; i < ar; i++ {
					b = g.Value(b, et, 2)
				}
				b = append(b, r.Bytes(r.Intn(4))...)
				emit(r, "elem-combo", kind, b, ar == 2)
			}
		}
		for _, vt := range lib.AllTypes {
			for _, ar := range []int{0, 1, 3} {
				b := []byte{byte(et), byte(vt)}
				b = binary.BigEndian.AppendUint32(b, uint32(ar))
				for i := 0; i < ar; i++ {
					b = g.Value(b, et, 2)
					b = g.Value(b, vt, 2)
				}
				b = append(b, r.Bytes(r.Intn(4))...)
				emit(r, "kv-combo", lib.MAP, b, ar == 1)
				if ar == 1 { // truncations of the last value (F4 class)
					for cut := 1; cut <= 9 && cut < len(b); cut++ {
						emit(r, "kv-combo-cut", lib.MAP, b[:len(b)-cut], false)
					}
				}
			}
		}
	}
	// 3. nesting depths 1..70 for every container kind
	for _, kind := range []int{lib.STRUCT, lib.LIST, lib.SET, lib.MAP} {
		for lv := 1; lv <= 70; lv++ {
			if o.Tier != "thorough" && lv > 4 && lv < 60 && lv%8 != 0 {
				continue
			}
			for _, leaf := range []int{lib.BYTE, lib.STRING, -1} {
				var t int
				var b []byte
				if leaf == -1 { // innermost empty list
					t, b = lib.Nest(kind, lv, lib.LIST, []byte{lib.BYTE, 0, 0, 0, 0}, false)
				} else {
					t, b = lib.Nest(kind, lv, leaf, g.Value(nil, leaf, 0), kind == lib.MAP && lv%2 == 0)
				}
				emit(r, "depth", t, append(b, 0xee), lv >= 62 && lv <= 66)
			}
		}
	}
	// 3b. wide parents: 63 … 130 container-typed children under ONE parent (depth 2–3): the depth budget is per level of
	// nesting, never per sibling — the 64th list/struct/map child of one parent is as valid as the first
	{
		children := []struct {
			t int
			b []byte
		}{
			{lib.LIST, []byte{lib.BYTE, 0, 0, 0, 0}},
			{lib.LIST, []byte{lib.I32, 0, 0, 0, 1, 0, 0, 0, 9}},
			{lib.STRUCT, []byte{0}},
			{lib.STRUCT, []byte{lib.BYTE, 0, 1, 5, 0}},
			{lib.MAP, []byte{lib.BYTE, lib.BYTE, 0, 0, 0, 0}},
			{lib.SET, []byte{lib.STRING, 0, 0, 0, 1, 0, 0, 0, 1, 'x'}},
			{lib.STRING, []byte{0, 0, 0, 1, 'y'}},
		}
		widths := []int{63, 64, 65, 70, 130}
		if o.Tier == "thorough" {
			widths = append(widths, 1, 2, 62, 66, 127, 128, 129, 200, 300)
		}
		for _, w := range widths {
			for ci, c := range children {
				for _, parent := range []string{"list", "set", "mapv", "mapk", "struct"} {
					var t int
					var b []byte
					switch parent {
					case "list", "set":
						t = lib.LIST
						if parent == "set" {
							t = lib.SET
						}
						b = binary.BigEndian.AppendUint32([]byte{byte(c.t)}, uint32(w))
						for i := 0; i < w; i++ {
							b = append(b, c.b...)
						}
					case "mapv":
						t = lib.MAP
						b = binary.BigEndian.AppendUint32([]byte{lib.STRING, byte(c.t)}, uint32(w))
						for i := 0; i < w; i++ {
							b = append(b, 0, 0, 0, 1, byte('a'+i%26))
							b = append(b, c.b...)
						}
					case "mapk":
						t = lib.MAP
						b = binary.BigEndian.AppendUint32([]byte{byte(c.t), lib.I16}, uint32(w))
						for i := 0; i < w; i++ {
							b = append(b, c.b...)
							b = append(b, byte(i>>8), byte(i))
						}
					case "struct":
						t = lib.STRUCT
						for i := 0; i < w; i++ {
							b = append(b, byte(c.t), byte((i+1)>>8), byte(i+1))
							b = append(b, c.b...)
						}
						b = append(b, 0)
					}
					emit(r, "wide:"+parent, t, append(b, 0xee), w == 64 || w == 65 || (w == 130 && ci < 3))
					if w == 65 && ci < 5 { // two wide levels: a list of `3` such parents, and the parent as the only field of a struct
						bb := binary.BigEndian.AppendUint32([]byte{byte(t)}, 3)
						bb = append(append(append(bb, b...), b...), b...)
						emit(r, "wide2:"+parent, lib.LIST, bb, ci < 2)
						sb := append(append([]byte{byte(t), 0, 7}, b...), 0)
						emit(r, "wide2s:"+parent, lib.STRUCT, sb, false)
					}
				}
			}
		}
	}
	// 4. hostile sizes on non-allocating entry points (and the guard for the others)
	for _, sz := range []uint32{0x7fffffff, 0x80000000, 0xffffffff, 0x00100001, 0x7ffffff0} {
		for _, t := range []int{lib.STRING, lib.LIST, lib.SET, lib.MAP} {
			var b []byte
			switch t {
			case lib.STRING:
				b = binary.BigEndian.AppendUint32(nil, sz)
			case lib.MAP:
				b = binary.BigEndian.AppendUint32([]byte{lib.BYTE, byte(r.Pick(lib.BYTE, lib.STRING))}, sz)
			default:
				b = binary.BigEndian.AppendUint32([]byte{byte(r.Pick(lib.BYTE, lib.STRING, lib.I64))}, sz)
			}
			b = append(b, r.Bytes(r.Intn(12))...)
			emit(r, "hostile-size", t, b, true)
		}
	}
	// 5. random valid values, their cut points and structural perturbations
	for i := 0; i < n; i++ {
		t := lib.AllTypes[r.Intn(len(lib.AllTypes))]
		depth := r.Pick(1, 2, 3, 4, 6)
		g.MaxStr = r.Pick(4, 40, 40, 300)
		v := g.Gen(t, depth)
		structs := append([]int(nil), g.Structs...)
		b := append(append([]byte(nil), v...), r.Bytes(r.Pick(0, 0, 1, 5))...)
		emit(r, "valid", t, b, true)
		// cut points
		ncut := len(v)
		if ncut > 24 {
			ncut = 24
		}
		for c := 0; c < ncut; c++ {
			cut := c
			if len(v) > 24 {
				cut = r.Intn(len(v))
			}
			emit(r, "cut", t, v[:cut], c%6 == 0)
		}
		// structural byte replaced by boundary values
		for k := 0; k < 6 && len(structs) > 0; k++ {
			pos := structs[r.Intn(len(structs))]
			m := append([]byte(nil), b...)
			m[pos] = lib.BoundaryBytes[r.Intn(len(lib.BoundaryBytes))]
			emit(r, "perturb", t, m, k%3 == 0)
		}
		// object reuse: a first use that fails part-way (a cut of this value) or succeeds, then a second value
		if i%3 == 0 && len(v) > 1 {
			t2 := lib.AllTypes[r.Intn(len(lib.AllTypes))]
			v2 := g.Gen(t2, r.Pick(1, 2, 3))
			b2 := append(append([]byte(nil), v2...), r.Bytes(r.Pick(0, 2))...)
			first := v[:r.Intn(len(v))]
			if r.Chance(1, 4) {
				first = b
			}
			emitReuse(r, t, first, t2, b2)
			// two Next calls on one bytes decoder: first on a value or a cut of it, then the next type
			seq := append(append([]byte(nil), first...), b2...)
			if lib.MaxRequest(t, seq) <= allocCap {
				em.Count("reuse:seq2")
				em.Line(runSeq2(t, t2, seq), "skipseq2", strconv.Itoa(t), strconv.Itoa(t2), lib.Hex(seq))
			}
		}
		// splice two values
		if i%5 == 0 && len(v) > 2 {
			w := g.Gen(lib.AllTypes[r.Intn(len(lib.AllTypes))], 3)
			c := r.Intn(len(v))
			m := append(append([]byte(nil), v[:c]...), w...)
			emit(r, "splice", t, m, false)
		}
	}
	// 6. long strings straddling the reader's buffer sizes
	for _, L := range []int{4090, 4092, 4093, 4096, 4100, 8186, 8188, 8192, 8200, 20000} {
		if o.Tier != "thorough" && L != 4092 && L != 8188 && L != 4100 {
			continue
		}
		b := binary.BigEndian.AppendUint32(nil, uint32(L))
		b = append(b, r.Bytes(L)...)
		b = append(b, 0xaa, 0xbb)
		emit(r, "longstr", lib.STRING, b, true)
		lb := append([]byte{lib.STRING, 0, 0, 0, 2}, b[:len(b)-2]...)
		lb = append(lb, 0, 0, 0, 1, 0x55, 0x66)
		emit(r, "longstr", lib.LIST, lb, true)
	}
	// 7. bounded-exhaustive short strings over a grammar alphabet
	alpha := []byte{0x00, 0x01, 0x02, 0x0b, 0x0c, 0x0d, 0x0f, 0x80, 0xff}
	maxLen := 3
	if o.Tier == "thorough" {
		maxLen = 5
	}
	var rec func(cur []byte)
	rec = func(cur []byte) {
		for _, t := range []int{lib.STRING, lib.STRUCT, lib.MAP, lib.LIST, lib.BYTE, lib.I16} {
			emit(r, "exhaustive", t, cur, false)
		}
		if len(cur) == maxLen {
			return
		}
		for _, a := range alpha {
			rec(append(append([]byte(nil), cur...), a))
		}
	}
	rec(nil)
}

func replay(lines [][]string) {
	r := lib.NewRng(1)
	_ = r
	for _, f := range lines {
		if len(f) == 4 && f[0] == "skipseq2" {
			t1, _ := strconv.Atoi(f[1])
			t2, _ := strconv.Atoi(f[2])
			em.Line(runSeq2(t1, t2, lib.UnHex(f[3])), f...)
			continue
		}
		if len(f) == 7 && f[0] == "skipreuse" {
			t1, _ := strconv.Atoi(f[2])
			t2, _ := strconv.Atoi(f[4])
			em.Line(runReuse(f[1], t1, lib.UnHex(f[3]), t2, lib.UnHex(f[5]), f[6]), f...)
			continue
		}
		if len(f) != 5 || f[0] != "skip" {
			continue
		}
		t, _ := strconv.Atoi(f[2])
		b := lib.UnHex(f[3])
		var res string
		switch f[1] {
		case "binary":
			res = runBinary(t, b)
		case "binstack":
			res = runBinaryStack(t, b)
		case "br":
			res = runBR(t, b, f[4])
		case "tplbytes":
			res = runTplBytes(t, b)
		case "tplbufiox":
			res = runTplBufiox(t, b, f[4])
		case "tplreader":
			res = runTplReader(t, b, f[4])
		default:
			continue
		}
		em.Line(res, f...)
	}
}

func main() {
	o := lib.ParseOpts()
	em = lib.NewEmitter()
	if o.Replay != "" {
		replay(lib.ReadOpLines(o.Replay))
		em.Close(o.Stats)
		return
	}
	replay(lib.ReadOpLines(o.Corpus))
	genCases(o)
	em.Close(o.Stats)
}

// fam_smap: correspondence harness for container/strmap (C07).
//
// line:  smap <vt> <hist> <probes> => L=<status,..> N=<len> I=<sorted key=val,..> X=<Item(-1)>,<Item(len)> G=<get,..>
//
// Every line is a whole history of loads on ONE fresh instance (LoadFromMap / LoadFromSlice, growing
// and shrinking, mismatched lengths) followed by the observations, so that a line replays on its own.
// The hash seed of the real map is random per instance and cannot be controlled; only hash-independent
// observations are reported (Len, the sorted Item enumeration, Get).
package main

import (
	"fmt"
	"runtime/debug"
	"sort"
	"strconv"
	"strings"
	"unsafe"

	"github.com/cloudwego/gopkg/container/strmap"
	"verifharness/lib"
)

var em *lib.Emitter

type load struct {
	mode string // "m" LoadFromMap, "s" LoadFromSlice; "M" NewFromMap, "S" NewFromSlice (first load: creates the instance)
	kk   []string
	vv   []string // value tokens
}

type pair struct {
	A int32
	B uint8
}

func guard(f func() string) string {
	return strings.ReplaceAll(lib.Guard(f), " ", ":")
}

func errKind(err error) string {
	if err == nil {
		return "ok"
	}
	switch err.Error() {
	case "kv len not match":
		return "err:kvlen"
	case "key too large":
		return "err:keytoolarge"
	}
	return "err:other"
}

func joinC(l []string) string {
	if len(l) == 0 {
		return "_"
	}
	return strings.Join(l, ",")
}

// keyTok: hex, or z<n> for the (zero-filled) keys longer than 1 MiB that only the F13 witness uses
func keyTok(s string) string {
	if len(s) > 1<<20 {
		return "z" + strconv.Itoa(len(s))
	}
	return lib.Hex([]byte(s))
}

func hexList(l []string) string {
	t := make([]string, len(l))
	for i, s := range l {
		t[i] = keyTok(s)
	}
	return joinC(t)
}

// zeros: a string of n zero bytes without touching the memory (fresh pages are mapped lazily)
var zeroCache = map[int]string{}

func zeros(n int) string {
	if n == 0 {
		return ""
	}
	if s, ok := zeroCache[n]; ok {
		return s
	}
	b := make([]byte, n)
	if n > 1<<20 { // one copy per process: the pre-3480123 code allocates another len(key) bytes itself
		defer func() { zeroCache[n] = *(*string)(unsafe.Pointer(&b)) }()
	}
	return *(*string)(unsafe.Pointer(&b)) // string header = prefix of the slice header (go.mod is go1.18: no unsafe.String)
}

func unKeyTok(t string) string {
	if strings.HasPrefix(t, "z") {
		n, err := strconv.Atoi(t[1:])
		if err != nil || n < 0 || n > 1<<33 {
			panic("bad key token")
		}
		return zeros(n)
	}
	return string(lib.UnHex(t))
}

func parseInt(t string) int { v, _ := strconv.ParseInt(t, 10, 64); return int(v) }
func showInt(v int) string  { return strconv.Itoa(v) }
func parsePair(t string) pair {
	f := strings.SplitN(t, ".", 2)
	if len(f) != 2 {
		return pair{}
	}
	a, _ := strconv.ParseInt(f[0], 10, 32)
	b, _ := strconv.ParseUint(f[1], 10, 8)
	return pair{int32(a), uint8(b)}
}
func showPair(p pair) string { return fmt.Sprintf("%d.%d", p.A, p.B) }

// validMapLoad: a LoadFromMap request must be expressible as a Go map
func isCtor(ld load) bool { return ld.mode == "M" || ld.mode == "S" }

func validMapLoad(ld load) bool {
	if len(ld.kk) != len(ld.vv) {
		return false
	}
	seen := make(map[string]bool, len(ld.kk))
	for _, k := range ld.kk {
		if seen[k] {
			return false
		}
		seen[k] = true
	}
	return true
}

func runMap[V any](parse func(string) V, show func(V) string, hist []load, probes []string) string {
	m := strmap.New[V]()
	var sts []string
	for _, ld := range hist {
		ld := ld
		sts = append(sts, guard(func() string {
			vv := make([]V, len(ld.vv))
			for i, t := range ld.vv {
				vv[i] = parse(t)
			}
			if ld.mode == "m" || ld.mode == "M" {
				gm := make(map[string]V, len(ld.kk))
				for i, k := range ld.kk {
					gm[k] = vv[i]
				}
				if ld.mode == "M" { // a panic leaves m = the fresh New() above
					m = strmap.NewFromMap(gm)
					return "ok"
				}
				return errKind(m.LoadFromMap(gm))
			}
			if ld.mode == "S" {
				m = strmap.NewFromSlice(ld.kk, vv)
				return "ok"
			}
			return errKind(m.LoadFromSlice(ld.kk, vv))
		}))
	}
	n := -1
	ns := guard(func() string { n = m.Len(); return strconv.Itoa(n) })
	var items []string
	ipanic := ""
	for i := 0; i < n; i++ {
		i := i
		r := guard(func() string {
			k, v := m.Item(i)
			return lib.Hex([]byte(k)) + "=" + show(v)
		})
		if strings.HasPrefix(r, "PANIC") {
			ipanic = r
			break
		}
		items = append(items, r)
	}
	sort.Strings(items)
	is := joinC(items)
	if ipanic != "" {
		is = ipanic
	}
	item := func(i int) string {
		return guard(func() string {
			k, v := m.Item(i)
			return lib.Hex([]byte(k)) + "=" + show(v)
		})
	}
	x := item(-1) + "," + item(n)
	// String(): a no-panic call (the text is hash-order dependent and not compared)
	ts := guard(func() string { _ = m.String(); return "ok" })
	gs := make([]string, len(probes))
	for i, p := range probes {
		p := p
		gs[i] = guard(func() string {
			v, ok := m.Get(p)
			if !ok {
				return "~"
			}
			return "+" + show(v)
		})
	}
	return fmt.Sprintf("L=%s N=%s I=%s X=%s T=%s G=%s", joinC(sts), ns, is, x, ts, joinC(gs))
}

func runS2S(zero bool, hist []load, probes []string) string {
	var m *strmap.Str2Str
	if zero {
		m = &strmap.Str2Str{}
	} else {
		m = strmap.NewStr2Str()
	}
	var sts []string
	for _, ld := range hist {
		ld := ld
		sts = append(sts, guard(func() string {
			vv := make([]string, len(ld.vv))
			for i, t := range ld.vv {
				vv[i] = string(lib.UnHex(t))
			}
			if ld.mode == "m" || ld.mode == "M" {
				gm := make(map[string]string, len(ld.kk))
				for i, k := range ld.kk {
					gm[k] = vv[i]
				}
				if ld.mode == "M" {
					m = strmap.NewStr2StrFromMap(gm)
					return "ok"
				}
				return errKind(m.LoadFromMap(gm))
			}
			if ld.mode == "S" {
				m = strmap.NewStr2StrFromSlice(ld.kk, vv)
				return "ok"
			}
			return errKind(m.LoadFromSlice(ld.kk, vv))
		}))
	}
	ns := guard(func() string { return strconv.Itoa(m.Len()) })
	gs := make([]string, len(probes))
	for i, p := range probes {
		p := p
		gs[i] = guard(func() string {
			v, ok := m.Get(p)
			if !ok {
				return "~"
			}
			return "+" + lib.Hex([]byte(v))
		})
	}
	return fmt.Sprintf("L=%s N=%s I=na X=na T=na G=%s", joinC(sts), ns, joinC(gs))
}

func histStr(hist []load) string {
	if len(hist) == 0 {
		return "-"
	}
	parts := make([]string, len(hist))
	for i, ld := range hist {
		parts[i] = ld.mode + ":" + hexList(ld.kk) + ":" + joinC(ld.vv)
	}
	return strings.Join(parts, ";")
}

func run(vt string, hist []load, probes []string) string {
	for i, ld := range hist {
		if (ld.mode == "m" || ld.mode == "M") && !validMapLoad(ld) {
			return "bad-op"
		}
		if isCtor(ld) && (i > 0 || vt == "s2z") { // constructors create the instance
			return "bad-op"
		}
	}
	switch vt {
	case "int":
		return runMap(parseInt, showInt, hist, probes)
	case "st":
		return runMap(parsePair, showPair, hist, probes)
	case "s2s":
		return runS2S(false, hist, probes)
	case "s2z":
		return runS2S(true, hist, probes)
	}
	return "bad-op"
}

func sizeClass(n int) string {
	switch {
	case n == 0:
		return "0"
	case n == 1:
		return "1"
	case n <= 8:
		return "2-8"
	case n <= 64:
		return "9-64"
	case n <= 1024:
		return "65-1024"
	case n <= 16384:
		return "1025-16384"
	}
	return ">16384"
}

func emit(class, vt string, hist []load, probes []string) {
	res := run(vt, hist, probes)
	em.Count("class:" + class)
	em.Count("vt:" + vt)
	em.Count(fmt.Sprintf("loads:%d", len(hist)))
	if len(hist) > 0 && isCtor(hist[0]) {
		em.Count("ctor:" + vt + ":" + hist[0].mode)
	}
	if len(hist) == 0 {
		em.Count("state:never-loaded")
	} else {
		last := hist[len(hist)-1]
		em.Count("lastload:" + last.mode + ":" + sizeClass(len(last.kk)))
		if len(hist) >= 2 {
			prev := hist[len(hist)-2]
			switch {
			case len(last.kk) > len(prev.kk):
				em.Count("reload:grow")
			case len(last.kk) < len(prev.kk):
				em.Count("reload:shrink")
			default:
				em.Count("reload:same-size")
			}
		}
	}
	if i := strings.Index(res, " G="); i >= 0 && res[i+3:] != "_" {
		for _, g := range strings.Split(res[i+3:], ",") {
			switch {
			case g == "~":
				em.Count("get:absent")
			case strings.HasPrefix(g, "+"):
				em.Count("get:present")
			default:
				em.Count("get:" + g)
			}
		}
	}
	if i := strings.Index(res, " N="); i >= 0 {
		for _, s := range strings.Split(res[2:i], ",") {
			em.Count("load:" + s)
		}
	}
	em.Line(res, "smap", vt, histStr(hist), hexList(probes))
	releaseBig(hist)
}

// releaseBig: after a line with a > 1 MiB key give back whatever the code under test allocated for it
func releaseBig(hist []load) {
	for _, ld := range hist {
		for _, k := range ld.kk {
			if len(k) > 1<<20 {
				debug.FreeOSMemory()
				return
			}
		}
	}
}

// ---------------------------------------------------------------- generators

var alpha4 = []byte{'a', 'b', 0x00, 0xff}

type gen struct {
	r        *lib.Rng
	universe []string // all strings over alpha4 of length 0..5
}

func newGen(r *lib.Rng) *gen {
	g := &gen{r: r}
	var rec func(cur []byte)
	rec = func(cur []byte) {
		g.universe = append(g.universe, string(cur))
		if len(cur) == 5 {
			return
		}
		for _, a := range alpha4 {
			rec(append(append([]byte(nil), cur...), a))
		}
	}
	rec(nil)
	return g
}

// key: one key of the given style
func (g *gen) key(style int) string {
	r := g.r
	switch style {
	case 0: // small alphabet, lengths 0..5 (prefixes of one another, the empty key)
		n := r.Intn(6)
		b := make([]byte, n)
		for i := range b {
			b[i] = alpha4[r.Intn(4)]
		}
		return string(b)
	case 1: // binary content, short
		return string(r.Bytes(r.Intn(7)))
	case 2: // small alphabet, lengths 0..9 (enough distinct keys for big maps)
		n := r.Intn(10)
		b := make([]byte, n)
		for i := range b {
			b[i] = alpha4[r.Intn(4)]
		}
		return string(b)
	case 3: // long keys sharing a prefix and/or suffix
		pre := strings.Repeat("p", r.Pick(0, 3, 17, 100))
		suf := strings.Repeat("s", r.Pick(0, 2, 33))
		return pre + string(r.Bytes(r.Intn(4))) + suf
	default: // binary, any length up to 40
		return string(r.Bytes(r.Intn(41)))
	}
}

// keys: n distinct keys
func (g *gen) keys(n, style int) []string {
	seen := make(map[string]bool, n)
	out := make([]string, 0, n)
	if style == 0 && n > 1000 {
		style = 2
	}
	tries := 0
	for len(out) < n {
		k := g.key(style)
		tries++
		if tries > 20*n+100 { // universe exhausted: widen
			k = k + string(g.r.Bytes(3))
		}
		if seen[k] {
			// near-duplicate instead of a duplicate: flip/extend the last byte
			if g.r.Bool() {
				k = k + string([]byte{byte(g.r.Intn(256))})
			} else if len(k) > 0 {
				b := []byte(k)
				b[len(b)-1] ^= 1 << uint(g.r.Intn(8))
				k = string(b)
			}
			if seen[k] {
				continue
			}
		}
		seen[k] = true
		out = append(out, k)
	}
	return out
}

func (g *gen) val(vt string) string {
	r := g.r
	switch vt {
	case "int":
		switch r.Intn(8) {
		case 0:
			return "0"
		case 1:
			return strconv.Itoa(-1 - r.Intn(5))
		case 2:
			return "9223372036854775807"
		case 3:
			return "-9223372036854775808"
		}
		return strconv.Itoa(r.Intn(1000))
	case "st":
		return fmt.Sprintf("%d.%d", int32(r.U64()), uint8(r.U64()))
	}
	// Str2Str: value strings, incl. empty, repeated, binary, long
	switch r.Intn(8) {
	case 0:
		return "-"
	case 1:
		return lib.Hex([]byte("same"))
	case 2:
		return lib.Hex(r.Bytes(r.Pick(100, 300)))
	}
	return lib.Hex(r.Bytes(r.Intn(9)))
}

func (g *gen) vals(vt string, n int) []string {
	out := make([]string, n)
	for i := range out {
		out[i] = g.val(vt)
	}
	return out
}

// probes: loaded keys, their prefixes/extensions/one-bit neighbours, keys of earlier loads, random
func (g *gen) probes(hist []load, max int) []string {
	r := g.r
	seen := map[string]bool{}
	var out []string
	add := func(s string) {
		if !seen[s] {
			seen[s] = true
			out = append(out, s)
		}
	}
	add("")
	var cur, old []string
	for i, ld := range hist {
		if i == len(hist)-1 {
			cur = ld.kk
		} else {
			old = append(old, ld.kk...)
		}
	}
	pick := func(l []string, n int) []string {
		if len(l) <= n {
			return l
		}
		o := make([]string, n)
		for i := range o {
			o[i] = l[r.Intn(len(l))]
		}
		return o
	}
	for _, k := range pick(cur, max/2) {
		add(k)
		switch r.Intn(6) {
		case 0:
			if len(k) > 0 {
				add(k[:len(k)-1])
				add(k[1:])
			}
		case 1:
			add(k + string(alpha4[r.Intn(4)]))
			add(string(alpha4[r.Intn(4)]) + k)
		case 2:
			if len(k) > 0 {
				b := []byte(k)
				b[r.Intn(len(b))] ^= 1 << uint(r.Intn(8))
				add(string(b))
			}
		case 3:
			add(k + "\x00")
		}
	}
	for _, k := range pick(old, max/8+2) {
		add(k)
	}
	for i := 0; i < max/8+2; i++ {
		add(g.key(r.Intn(5)))
	}
	return out
}

// boundary sizes: n with ⌊4n/3⌋ just below / at a power of two (slot table switches prime), and 0,1,2
var boundarySizes = []int{0, 1, 2, 3, 5, 6, 11, 12, 23, 24, 47, 48, 95, 96, 191, 192, 383, 384, 767, 768, 1535, 1536, 3071, 3072}

func (g *gen) size() int {
	r := g.r
	switch r.Intn(10) {
	case 0:
		return 0
	case 1:
		return 1
	case 2, 3:
		return boundarySizes[r.Intn(14)]
	case 4:
		return r.Range(20, 200)
	}
	return r.Range(2, 12)
}

func (g *gen) load(vt string, n, style int) load {
	mode := "s"
	if g.r.Bool() {
		mode = "m"
	}
	return load{mode, g.keys(n, style), g.vals(vt, n)}
}

// viaCtor: let the first load of a history create the instance through the constructor
func viaCtor(ld load) load {
	ld.mode = strings.ToUpper(ld.mode)
	return ld
}

// mismatched: slices of different lengths
func (g *gen) mismatched(vt string) load {
	n := g.r.Range(0, 6)
	d := g.r.Pick(1, 1, 2, 5)
	if g.r.Bool() {
		return load{"s", g.keys(n+d, 0), g.vals(vt, n)}
	}
	return load{"s", g.keys(n, 0), g.vals(vt, n+d)}
}

var vts = []string{"int", "st", "s2s"}

// scramble: lib.NewRng(seed) starts seed*gamma steps into ONE splitmix sequence, so the streams of
// seeds 1,2,3 are the same stream shifted by one draw and re-synchronise as soon as the generators
// consume a data-dependent number of draws. Finalising the seed first puts the streams ~2^63 steps apart.
func scramble(seed uint64) uint64 {
	z := seed + 0x9E3779B97F4A7C15
	z = (z ^ (z >> 30)) * 0xBF58476D1CE4E5B9
	z = (z ^ (z >> 27)) * 0x94D049BB133111EB
	return z ^ (z >> 31)
}

func genCases(o *lib.Opts) {
	r := lib.NewRng(scramble(o.Seed))
	g := newGen(r)
	n := o.N
	if n == 0 {
		n = 700
		if o.Tier == "thorough" {
			n = 6000
		}
	}
	someProbes := []string{"", "a", "b", "ab", "\x00", "\xff", "aa"}

	// 1. never-loaded maps, empty maps (from an empty map, from empty slices), reload to empty
	for _, vt := range []string{"int", "st", "s2s", "s2z"} {
		emit("never-loaded", vt, nil, someProbes)
		emit("never-loaded", vt, nil, nil)
		for _, mode := range []string{"m", "s"} {
			emit("empty", vt, []load{{mode, nil, nil}}, someProbes)
			emit("empty-after-full", vt, []load{g.load(vt, 5, 0), {mode, nil, nil}}, g.universe[:30])
		}
		emit("failed-first", vt, []load{g.mismatched(vt)}, someProbes)
		if vt != "s2z" {
			for _, mode := range []string{"M", "S"} {
				emit("empty", vt, []load{{mode, nil, nil}}, someProbes)
				emit("ctor-then-empty", vt, []load{viaCtor(g.load(vt, 5, 0)), {strings.ToLower(mode), nil, nil}}, g.universe[:30])
			}
			// NewFromSlice / NewStr2StrFromSlice with mismatched lengths: panic(err), no object
			emit("ctor-failed", vt, []load{viaCtor(g.mismatched(vt))}, someProbes)
			emit("ctor-failed", vt, []load{viaCtor(g.mismatched(vt)), g.load(vt, 3, 0)}, someProbes)
		}
	}

	// 2. bounded-exhaustive: every subset of the 7 strings of length ≤ 2 over {a, 00} is loaded,
	//    every string of length ≤ 3 over that alphabet is probed
	var small, smallProbes []string
	var rec func(cur string, max int, out *[]string)
	rec = func(cur string, max int, out *[]string) {
		*out = append(*out, cur)
		if len(cur) == max {
			return
		}
		rec(cur+"a", max, out)
		rec(cur+"\x00", max, out)
	}
	rec("", 2, &small)
	rec("", 3, &smallProbes)
	for mask := 0; mask < 1<<len(small); mask++ {
		var kk []string
		for i, s := range small {
			if mask&(1<<i) != 0 {
				kk = append(kk, s)
			}
		}
		vt := vts[mask%3]
		emit("exhaustive", vt, []load{{[]string{"s", "S", "m", "M"}[(mask/3)%4], kk, g.vals(vt, len(kk))}}, smallProbes)
	}

	// 3. the whole 4-symbol universe (1365 keys, every key a prefix of others) and its subsets
	for _, vt := range vts {
		emit("universe", vt, []load{{"s", g.universe, g.vals(vt, len(g.universe))}}, g.universe)
		emit("universe-prefix", vt, []load{{"m", g.universe[:341], g.vals(vt, 341)}}, g.universe)
	}

	// 4. boundary sizes of the slot table
	for _, sz := range boundarySizes {
		if o.Tier != "thorough" && sz > 400 && r.Intn(3) != 0 {
			continue
		}
		vt := vts[r.Intn(3)]
		h := []load{g.load(vt, sz, r.Pick(0, 1, 2))}
		if r.Bool() {
			h[0] = viaCtor(h[0])
		}
		emit("boundary-size", vt, h, g.probes(h, 60))
	}

	// 5. random histories on one instance: grow, shrink, mismatched loads in between, both loaders;
	//    one line per prefix so that every intermediate state is observed
	for i := 0; i < n; i++ {
		vt := vts[r.Intn(3)]
		if r.Chance(1, 25) {
			vt = "s2z"
		}
		style := r.Pick(0, 0, 0, 1, 1, 3, 4)
		nl := r.Pick(1, 1, 2, 3, 4, 6)
		var hist []load
		for j := 0; j < nl; j++ {
			if r.Chance(1, 6) {
				hist = append(hist, g.mismatched(vt))
			} else {
				hist = append(hist, g.load(vt, g.size(), style))
			}
			if j == 0 && vt != "s2z" && r.Chance(1, 3) { // first load through a constructor
				hist[0] = viaCtor(hist[0])
			}
			emit("history", vt, hist, g.probes(hist, 40))
		}
	}

	// 6. duplicate keys through the slices (outside the hypotheses; identical values keep Get deterministic)
	for i := 0; i < 20; i++ {
		vt := vts[r.Intn(3)]
		kk := g.keys(r.Range(1, 6), 0)
		vv := g.vals(vt, len(kk))
		d := r.Intn(len(kk))
		kk = append(kk, kk[d])
		vv = append(vv, vv[d])
		h := []load{{"s", kk, vv}}
		emit("duplicate-keys", vt, h, g.probes(h, 20))
	}

	// 7. large maps: 10^3, 10^4 (quick), 3·10^4 and 4·10^4 (thorough; the Lean driver evaluates the List.lookup spec per probe and per
	// item, quadratic in the map size: 10^5 entries kept one op busy for more than an hour); shrink to small and grow again
	bigs := []int{1000, 4096, 10000}
	if o.Tier == "thorough" {
		bigs = append(bigs, 30000, 40000)
	}
	for bi, sz := range bigs {
		vt := vts[bi%3]
		style := []int{2, 1, 4}[bi%3]
		if sz > 20000 && style == 1 {
			style = 4
		}
		big := g.load(vt, sz, style)
		h := []load{viaCtor(big)}
		emit("large", vt, h, g.probes(h, 400))
		h = []load{big, g.load(vt, 3, 0)}
		emit("large-then-small", vt, h, g.probes(h, 60))
		h = []load{g.load(vt, 7, 0), big, g.mismatched(vt)}
		emit("small-then-large", vt, h, g.probes(h, 400))
	}
	// 8. F13 witness (thorough tier; a 4 GiB key is only mapped, never touched): a load rejected
	//     with "key too large" must leave the previous content in place
	if o.Tier == "thorough" {
		big := zeros(1<<32 + 1)
		for _, vt := range vts {
			pre := load{"s", []string{"a", "b"}, g.vals(vt, 2)}
			h := []load{pre, {"s", []string{"c", big}, g.vals(vt, 2)}}
			emit("key-too-large", vt, h, []string{"a", "b", "c", ""})
			h = []load{pre, {"s", []string{big}, nil}, {"s", []string{big, "a"}, g.vals(vt, 2)}}
			emit("key-too-large", vt, h, []string{"a", "b", ""})
		}
		// drop the 4 GiB object again (a live 4 GiB heap would let garbage pile up to 8 GiB)
		zeroCache = map[int]string{}
		big = ""
		debug.FreeOSMemory()
	}
}

// ---------------------------------------------------------------- replay

func unhexList(t string) []string {
	if t == "_" {
		return nil
	}
	f := strings.Split(t, ",")
	out := make([]string, len(f))
	for i, x := range f {
		out[i] = unKeyTok(x)
	}
	return out
}

func tokList(t string) []string {
	if t == "_" {
		return nil
	}
	return strings.Split(t, ",")
}

func parseHist(t string) ([]load, bool) {
	if t == "-" {
		return nil, true
	}
	var hist []load
	for _, l := range strings.Split(t, ";") {
		f := strings.Split(l, ":")
		if len(f) != 3 || (f[0] != "m" && f[0] != "s" && f[0] != "M" && f[0] != "S") {
			return nil, false
		}
		hist = append(hist, load{f[0], unhexList(f[1]), tokList(f[2])})
	}
	return hist, true
}

func replay(lines [][]string) {
	for _, f := range lines {
		if len(f) != 4 || f[0] != "smap" {
			continue
		}
		res := lib.Guard(func() string {
			hist, ok := parseHist(f[2])
			if !ok {
				return "bad-op"
			}
			return run(f[1], hist, unhexList(f[3]))
		})
		em.Count("class:replay")
		em.Line(res, f...)
		if strings.Contains(f[2], "z") {
			debug.FreeOSMemory()
		}
	}
}

func main() {
	o := lib.ParseOpts()
	em = lib.NewEmitter()
	if o.Replay != "" {
		replay(lib.ReadOpLines(o.Replay))
		em.Close(o.Stats)
		return
	}
	replay(lib.ReadOpLines(o.Corpus))
	genCases(o)
	em.Close(o.Stats)
}

// Instrumented replacement of github.com/bytedance/gopkg@v0.1.1/lang/mcache/mcache.go, compiled into
// the C09/C16 harness with `go build -overlay /verif/harness/overlay/overlay.json` (neither /repo nor
// the module cache is touched). It keeps the ORIGINAL import set (sync, unsafe, dirtmake) and the
// original API (Malloc, Free) with the original capacity rule (cap = 1 << calcIndex(max(size, cap))).
//
// Differences (all on purpose, for observability):
//   - a buffer is never reused: every Malloc is a new allocation, numbered 1, 2, 3, ... (since the
//     last VerifReset), filled with 0xA5;
//   - Free never pools; a buffer that the real pool would take (known base pointer, power-of-two
//     capacity) is filled with 0xDE, so that any later read through a retained slice is visible;
//   - every Malloc and every Free call with cap > 0 is recorded as an event; a Free whose pointer is not
//     the base of a recorded allocation is recorded with ID 0 (a foreign / caller-owned buffer).
// Extra exported API, used only by the harness: VerifEvents, VerifReset, VerifWhich, VerifFreed.
package mcache

import (
	"sync"
	"unsafe"

	"github.com/bytedance/gopkg/lang/dirtmake"
)

const maxSize = 46

type bytesHeader struct {
	Data *byte
	Len  int
	Cap  int
}

// VerifEvent is one allocator call.
type VerifEvent struct {
	Kind   byte // 'M' Malloc, 'F' Free
	ID     int  // allocation number (1-based); 0 = Free of a pointer that is no allocation base
	Len    int  // Malloc: requested length
	Cap    int  // capacity of the slice (Malloc: returned, Free: cap(buf))
	Pooled bool // Free: the real pool would have taken it (power-of-two capacity)
	Dup    bool // Free: this allocation had been freed before
	CapOK  bool // Free: cap(buf) equals the allocation's capacity
}

type verifAlloc struct {
	base  *byte
	cap   int
	freed bool
}

var (
	verifMu     sync.Mutex
	verifEvents []VerifEvent
	verifAllocs []verifAlloc
)

// calculates which pool to get from
func calcIndex(size int) int {
	if size == 0 {
		return 0
	}
	if isPowerOfTwo(size) {
		return bsr(size)
	}
	return bsr(size) + 1
}

// Malloc: same contract as the original (len(ret) == size, cap(ret) == 1 << calcIndex(max(size, capacity))).
func Malloc(size int, capacity ...int) []byte {
	if len(capacity) > 1 {
		panic("too many arguments to Malloc")
	}
	var c = size
	if len(capacity) > 0 && capacity[0] > size {
		c = capacity[0]
	}
	i := calcIndex(c)
	if i >= maxSize {
		var caches [maxSize]int
		_ = caches[i] // same index panic as the original
	}
	n := 1 << i
	buf := dirtmake.Bytes(n, n)
	for k := range buf {
		buf[k] = 0xA5
	}
	ret := []byte{}
	h := (*bytesHeader)(unsafe.Pointer(&ret))
	h.Len = size
	h.Cap = n
	h.Data = &buf[0]
	verifMu.Lock()
	verifAllocs = append(verifAllocs, verifAlloc{base: h.Data, cap: n})
	verifEvents = append(verifEvents, VerifEvent{Kind: 'M', ID: len(verifAllocs), Len: size, Cap: n})
	verifMu.Unlock()
	return ret
}

// Free records the call; a buffer the real pool would take is poisoned instead of pooled.
func Free(buf []byte) {
	size := cap(buf)
	if size == 0 {
		return
	}
	h := (*bytesHeader)(unsafe.Pointer(&buf))
	ev := VerifEvent{Kind: 'F', Cap: size, Pooled: isPowerOfTwo(size)}
	verifMu.Lock()
	for k := range verifAllocs {
		if verifAllocs[k].base == h.Data {
			ev.ID = k + 1
			ev.Dup = verifAllocs[k].freed
			ev.CapOK = verifAllocs[k].cap == size
			if ev.Pooled {
				verifAllocs[k].freed = true
			}
			break
		}
	}
	verifEvents = append(verifEvents, ev)
	verifMu.Unlock()
	if ev.ID != 0 && ev.Pooled && ev.CapOK {
		full := buf[:size]
		for k := range full {
			full[k] = 0xDE
		}
	}
}

// VerifEvents returns the events recorded since the last call (and clears the ring).
func VerifEvents() []VerifEvent {
	verifMu.Lock()
	ev := verifEvents
	verifEvents = nil
	verifMu.Unlock()
	return ev
}

// VerifReset forgets all allocations and events; numbering restarts at 1.
func VerifReset() {
	verifMu.Lock()
	verifEvents = nil
	verifAllocs = nil
	verifMu.Unlock()
}

// VerifFreed reports whether p lies in an allocation that has been given back with Free.
func VerifFreed(p unsafe.Pointer) bool {
	verifMu.Lock()
	defer verifMu.Unlock()
	a := uintptr(p)
	for k := range verifAllocs {
		b := uintptr(unsafe.Pointer(verifAllocs[k].base))
		if a >= b && a < b+uintptr(verifAllocs[k].cap) {
			return verifAllocs[k].freed
		}
	}
	return false
}

// VerifWhich maps a data pointer to (allocation number, offset); (0, 0) when it lies in no allocation.
func VerifWhich(p unsafe.Pointer) (id int, off int) {
	verifMu.Lock()
	defer verifMu.Unlock()
	a := uintptr(p)
	for k := range verifAllocs {
		b := uintptr(unsafe.Pointer(verifAllocs[k].base))
		if a >= b && a < b+uintptr(verifAllocs[k].cap) {
			return k + 1, int(a - b)
		}
	}
	return 0, 0
}

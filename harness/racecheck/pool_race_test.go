// Package racecheck: the C14 stress workload (lib.PoolStress) as a Go test, so that it can run under
// the race detector:  cd /verif/harness && go test -race -count=1 -run TestPoolRace ./racecheck
// The harness op `pool - race run` shells out to exactly this (thorough tier).  A race report is a
// validation failure of the model's atomicity assumption (`bad:C14:race`); a clean run proves nothing.
package racecheck

import (
	"os"
	"strconv"
	"testing"
	"time"

	"verifharness/lib"
)

func TestPoolRace(t *testing.T) {
	seed := uint64(1)
	if s := os.Getenv("POOL_RACE_SEED"); s != "" {
		seed, _ = strconv.ParseUint(s, 10, 64)
	}
	budget := 20 * time.Second
	if s := os.Getenv("POOL_RACE_BUDGET_MS"); s != "" {
		if ms, err := strconv.Atoi(s); err == nil {
			budget = time.Duration(ms) * time.Millisecond
		}
	}
	t0 := time.Now()
	rounds := 0
	for round := uint64(0); round < 6 && time.Since(t0) < budget/2; round++ {
		rep := lib.PoolStress(seed*100+round, 16, 120, round%2 == 1)
		rounds++
		if len(rep.Bad) > 0 {
			t.Fatalf("stress self-check failed: %v", rep.Bad)
		}
		t.Logf("round %d: %d cycles, %d ops, %d map gets, %v", round, rep.Cycles, rep.Ops, rep.Gets, time.Since(t0))
	}
	if rounds == 0 {
		t.Fatal("no round ran")
	}
}
